"""C09 — rule references resolve the same way whatever the document order.

For a rule set (plain rules, correlation rules referring to them by name or id, chains of correlation
rules, unrelated rules) and a permutation of its documents, loaded through one of the load paths
{from_yaml, from_dicts, merge, load_ruleset}: outcome class, the rule order after reference resolution,
the output flags, and per rule the conversion result.  Deciding (Lean `coll.check`): the implementation's
order is a permutation in which every referenced rule precedes its referrers; output flags are as the
property states; loading fails with a Sigma error iff a reference is missing; per-rule queries and the
success/failure are identical for all permutations of the same rule set.

Round 4: load path 'partmerge' = merged collections whose parts differ in their resolution history: the documents are split
into the reference closure of one correlation rule and the rest (optionally split again); a part that is closed under
references may have been loaded with its references resolved on its own (default of the loaders), the others are loaded
unresolved; the parts are merged in any order, with the resolution either done by the merge or deferred to `Backend.convert`
(`merge(..., resolve_references=False)`).  With a deferred resolution the order and the output flags are observed after the
conversion, and a missing reference is reported when the references are resolved (by `convert`).

Round 5: load paths over rule sets of which some documents carry a *collected* error that has nothing to do with the references
(an out-of-range status / level / date on any document of the set - plain, unrelated or correlation rule): `errmerge` = the
permuted documents split into 1..3 parts, each loaded with `collect_errors=True, resolve_references=False` (what `load_ruleset` does
per file), merged by `SigmaCollection.merge` (default: the merge resolves); `errfiles` = one file per document (file names in a
seeded order, so the enumeration order differs from the document order), `load_ruleset(collect_errors=True)`.  The property is
judged at load time as for every other path: the merged collection's rule order puts referenced rules first, the output flags are
as stated, a missing reference is a Sigma error raised by the merge (no collecting parameter there) resp. a collected
SigmaRuleNotFoundError of `load_ruleset`; the per-rule queries equal those of the other paths."""
from __future__ import annotations
import itertools, os, random, shutil, uuid
from .common import Verdict, outcome_of_exception, WORK

ID = "C09"
GEN = ["Coll"]
RULE = ("rule sets = 1..4 plain rules (named and/or with id), 0..3 correlation rules referring by name or id (chains up to "
        "depth 3, generate on/off), unrelated rules interleaved, optionally a missing reference; x permutations of the "
        "documents (all for <= 5 documents at quick / <= 6 at thorough, sampled beyond) x load paths {from_yaml, from_dicts, "
        "merge, load_ruleset}; distinct = distinct (rule set, permutation, path); non-trivial = at least one reference"
        "; correlation rules with extended conditions (references from the condition text only); load path 'remerge' (the collection holding the correlation rules was merged once before with other rule objects)"
        "; load path 'collect' (error collection on, every correlation rule carries an unrelated collected error)"
        "; round 4: load path 'partmerge' (merged collections with different resolution histories: the reference closure of a correlation "
        "rule loaded resolved on its own, the rest unresolved or resolved, merged in any order, resolution by the merge or deferred to convert)"
        "; round 5: load paths 'errmerge' / 'errfiles' (parts resp. files loaded with error collection where a seeded non-empty subset of the documents - any kind - "
        "carries an unrelated collected error (status/level/date out of range); merged by merge() resp. load_ruleset(collect_errors=True); judged at load time)")
ASSUMPTIONS = [
    "rule names and ids are unique within a rule set (a later duplicate replaces an earlier one in the implementation's tables: modelled, not generated)",
    "the test backend's correlation templates are used to convert correlation rules",
]
PATHS = ["from_yaml", "from_dicts", "merge", "load_ruleset", "remerge", "collect"]


def rid(i):
    return str(uuid.UUID(int=0x1000 + i))


def gen_ruleset(rnd):
    nplain = rnd.randint(1, 4)
    docs = []
    for i in range(nplain):
        d = {"title": f"r{i}", "logsource": {"category": "c"}, "detection": {"sel": {"f": f"v{i}"}, "condition": "sel"}}
        how = rnd.choice(["name", "id", "both"])
        if how in ("name", "both"): d["name"] = f"rule{i}"
        if how in ("id", "both"): d["id"] = rid(i)
        docs.append(d)
    ncorr = rnd.choice([0, 1, 1, 2, 2, 3])
    for j in range(ncorr):
        cands = list(range(len(docs)))
        # deeper chains: prefer referring to the previous correlation rule sometimes
        k = rnd.randint(1, min(3, len(cands)))
        targets = rnd.sample(cands, k)
        if j > 0 and rnd.random() < 0.6:
            targets = list(dict.fromkeys(targets + [nplain + j - 1]))
        refs = []
        for t in targets:
            td = docs[t]
            opts = [x for x in (td.get("name"), td.get("id")) if x]
            refs.append(rnd.choice(opts))
        if rnd.random() < 0.08:
            refs.append("nope_missing")
        d = {"title": f"c{j}", "name": f"corr{j}", "id": rid(100 + j),
             "correlation": {"type": rnd.choice(["event_count", "temporal"]), "rules": refs, "group-by": ["f"], "timespan": "5m",
                             "generate": rnd.random() < 0.4}}
        if d["correlation"]["type"] == "event_count":
            d["correlation"]["condition"] = {"gte": 2}
        if (d["correlation"]["type"] == "temporal" and len(refs) >= 2 and all(isinstance(r, str) and r.startswith(("rule", "corr")) for r in refs)
                and rnd.random() < 0.6):
            # extended condition: the references come from the condition text only, there is no rules list
            expr = refs[0]
            for r in refs[1:]:
                expr += rnd.choice([" and ", " or ", " and not "]) + r
            d["correlation"]["condition"] = expr
            del d["correlation"]["rules"]
        if rnd.random() < 0.5:
            del d["id"]
        docs.append(d)
    return docs


def refs_of(c):
    """the rules a correlation section refers to: its rules list, or the identifiers of its extended condition"""
    if "rules" in c:
        return c["rules"]
    import re
    return [w for w in re.findall(r"[\w-]+", c.get("condition", "")) if w not in ("and", "or", "not")]


def gen_cases(tier, seed, gen, effort):
    rnd = random.Random(seed * 3331 + 9)
    thorough = tier == "thorough"
    cases = []
    nsets = (120 if not thorough else 1200) * effort
    for s in range(nsets):
        docs = gen_ruleset(rnd)
        n = len(docs)
        limit = 6 if thorough else 5
        if n <= limit and (thorough or n <= 4 or rnd.random() < 0.5):
            perms = list(itertools.permutations(range(n)))
            if not thorough and len(perms) > 40:
                perms = rnd.sample(perms, 40)
        else:
            perms = [tuple(rnd.sample(range(n), n)) for _ in range(20)]
        for p in perms:
            cases.append({"set": s, "docs": docs, "perm": list(p), "path": rnd.choice(PATHS)})
        # merged collections whose parts have different resolution histories (own random stream: the cases above stay as they were)
        rnd2 = random.Random(seed * 7919 + s * 31 + 4)
        corr = [i for i, d in enumerate(docs) if "correlation" in d]
        if corr:
            for p in rnd2.sample(perms, min(len(perms), 6 if not thorough else 12)):
                cases.append(dict({"set": s, "docs": docs, "perm": list(p), "path": "partmerge"}, **gen_parts(rnd2, docs, list(p), rnd2.choice(corr))))
        # round 5: parts / files loaded with error collection, some documents carry an unrelated collected error (own random stream)
        rnd3 = random.Random(seed * 4099 + s * 17 + 5)
        for p in rnd3.sample(perms, min(len(perms), 6 if not thorough else 12)):
            cases.append(dict({"set": s, "docs": docs, "perm": list(p), "path": rnd3.choice(["errmerge", "errmerge", "errfiles"])}, **gen_err(rnd3, docs, list(p))))
    # the smallest rule sets (fixed): one correlation rule alone whose reference is missing, one rule alone, a pair (cyclic references are outside the property: not generated)
    def corr(name, refs, **kw):
        return {"title": name, "name": name, "correlation": dict({"type": "event_count", "rules": refs, "group-by": ["f"], "timespan": "5m", "condition": {"gte": 2}}, **kw)}
    plain = {"title": "r0", "name": "rule0", "logsource": {"category": "c"}, "detection": {"sel": {"f": "v0"}, "condition": "sel"}}
    tiny = [[corr("corr0", ["nope_missing"])], [plain], [corr("corr0", ["rule0"]), plain], [corr("corr0", ["rule0", "nope_missing"]), plain],
            [corr("corr0", ["rule0"], generate=True)]]
    for k, docs in enumerate(tiny):
        for p in itertools.permutations(range(len(docs))):
            for path in PATHS:
                cases.append({"set": nsets + k, "docs": docs, "perm": list(p), "path": path})
    return cases, False


BOGUS = [("status", "bogus"), ("level", "catastrophic"), ("date", "2024-02-30")]


def gen_err(rnd, docs, perm):
    """round 5: which documents (positions in the permuted list) carry an unrelated collected error, and how the list is cut in parts"""
    n = len(perm)
    k = rnd.randint(1, max(1, min(n, 2)))
    bad = sorted(rnd.sample(range(n), k))
    ncuts = rnd.randint(0, min(2, n - 1))
    cuts = sorted(rnd.sample(range(1, n), ncuts)) if ncuts else []
    return {"bad": [[i, rnd.randrange(len(BOGUS))] for i in bad], "cuts": cuts, "names": rnd.sample(range(n), n)}


def with_errors(docs, case):
    import copy
    ds = copy.deepcopy(docs)
    for i, b in case["bad"]:
        ds[i][BOGUS[b][0]] = BOGUS[b][1]
    return ds


def closure(docs, start):
    """indices of the documents reachable from docs[start] through references, and whether every reference exists"""
    by_key = {}
    for i, d in enumerate(docs):
        for k in ("name", "id"):
            if k in d:
                by_key[d[k]] = i
    seen, todo, complete = set(), [start], True
    while todo:
        i = todo.pop()
        if i in seen:
            continue
        seen.add(i)
        c = docs[i].get("correlation")
        for r in (refs_of(c) if c else []):
            if r in by_key:
                todo.append(by_key[r])
            else:
                complete = False
    return seen, complete


def closed(docs, part):
    """every reference of a correlation rule of the part is to a rule of the part"""
    return all(closure(docs, i)[1] and closure(docs, i)[0] <= set(part) for i in part)


def gen_parts(rnd, docs, perm, c):
    """split the permuted documents into the reference closure of correlation rule c and the rest (sometimes split again); a part
    closed under references may be loaded resolved on its own.  Parts hold positions in the permuted document list."""
    pdocs = [docs[i] for i in perm]
    a, _ = closure(pdocs, perm.index(c))
    rest = [i for i in range(len(pdocs)) if i not in a]
    parts = [sorted(a)]
    if len(rest) >= 2 and rnd.random() < 0.3:
        k = rnd.randint(1, len(rest) - 1)
        parts += [rest[:k], rest[k:]]
    elif rest:
        parts.append(rest)
    rnd.shuffle(parts)
    resolved = []
    for part in parts:
        first = part == sorted(a)
        resolved.append(closed(pdocs, part) and rnd.random() < (0.85 if first else 0.4))
    return {"parts": parts, "resolved": resolved, "final": rnd.random() < 0.35}


def load(docs, path, tag, case=None):
    import yaml
    from sigma.collection import SigmaCollection
    if path == "from_dicts":
        import copy
        return SigmaCollection.from_dicts(copy.deepcopy(docs))
    if path == "from_yaml":
        return SigmaCollection.from_yaml(yaml.safe_dump_all(docs))
    if path == "merge":
        import copy
        h = max(1, len(docs) // 2)
        a = SigmaCollection.from_dicts(copy.deepcopy(docs[:h]), resolve_references=False)
        b = SigmaCollection.from_dicts(copy.deepcopy(docs[h:]), resolve_references=False) if docs[h:] else None
        return SigmaCollection.merge([c for c in (a, b) if c is not None])
    if path == "partmerge":
        import copy
        colls = [SigmaCollection.from_dicts(copy.deepcopy([docs[i] for i in part]), resolve_references=res)
                 for part, res in zip(case["parts"], case["resolved"])]
        return SigmaCollection.merge(colls, resolve_references=case["final"])
    if path == "errmerge":
        ds = with_errors(docs, case)
        bounds = [0] + case["cuts"] + [len(ds)]
        colls = [SigmaCollection.from_dicts(ds[a:b], collect_errors=True, resolve_references=False) for a, b in zip(bounds, bounds[1:])]
        return SigmaCollection.merge(colls)
    if path == "errfiles":
        ds = with_errors(docs, case)
        d = os.path.join(WORK, "tmp_c09", tag)
        shutil.rmtree(d, ignore_errors=True)
        os.makedirs(d)
        try:
            files = []
            for i, doc in enumerate(ds):
                files.append(os.path.join(d, f"{case['names'][i]:02d}.yml"))
                with open(files[-1], "w") as f:
                    yaml.safe_dump(doc, f)
            return SigmaCollection.load_ruleset(files if case["cuts"] else [d], collect_errors=True)
        finally:
            shutil.rmtree(d, ignore_errors=True)
    if path == "collect":
        # loaded with error collection; every correlation rule carries an unrelated, collected error (an invalid status): its
        # references are resolved all the same
        import copy
        ds = copy.deepcopy(docs)
        for d in ds:
            if "correlation" in d:
                d["status"] = "bogus"
        return SigmaCollection.from_dicts(ds, collect_errors=True)
    if path == "remerge":
        # merged collections, where the collection holding the correlation rules was merged (and so resolved) once before
        # with OTHER rule objects of the same names/ids: the second merge must resolve against the collection at hand
        import copy
        corr = [d for d in docs if "correlation" in d]
        plain = [d for d in docs if "correlation" not in d]
        pack = SigmaCollection.from_dicts(copy.deepcopy(corr), resolve_references=False)
        decoy_docs = copy.deepcopy(plain)
        for d in decoy_docs:
            d["detection"] = {"sel": {"decoy": d["title"]}, "condition": "sel"}
        SigmaCollection.merge([pack, SigmaCollection.from_dicts(decoy_docs, resolve_references=False)])
        return SigmaCollection.merge([pack, SigmaCollection.from_dicts(copy.deepcopy(plain), resolve_references=False)])
    d = os.path.join(WORK, "tmp_c09", tag)
    shutil.rmtree(d, ignore_errors=True)
    os.makedirs(d)
    try:
        for i, doc in enumerate(docs):
            with open(os.path.join(d, f"{i:02d}.yml"), "w") as f:
                yaml.safe_dump(doc, f)
        return SigmaCollection.load_ruleset([d])
    finally:
        shutil.rmtree(d, ignore_errors=True)


def run_impl(case):
    from sigma.backends.test import TextQueryTestBackend
    docs = [case["docs"][i] for i in case["perm"]]
    tag = f"{os.getpid()}_{case['set']}"
    try:
        coll = load(docs, case["path"], tag, case)
    except Exception as e:
        return {"outcome": outcome_of_exception(e), "stage": "load", "msg": str(e)[:120]}
    if case["path"] in ("collect", "errfiles"):        # with error collection "reported at load time" means: among the collected errors
        nf = [e for e in coll.errors if type(e).__name__ == "SigmaRuleNotFoundError"]
        if nf:
            return {"outcome": outcome_of_exception(nf[0]), "stage": "load", "msg": str(nf[0])[:120]}
    titles = [d["title"] for d in docs]
    deferred = case["path"] == "partmerge" and not case["final"]     # the caller left the resolution to Backend.convert
    try:
        if not deferred:
            order = [titles.index(r.title) for r in coll.rules]
            flags = {r.title: bool(r._output) for r in coll.rules}
        b = TextQueryTestBackend()
        out = b.convert(coll)
        if deferred:
            order = [titles.index(r.title) for r in coll.rules]
            flags = {r.title: bool(r._output) for r in coll.rules}
        results = {r.title: r.get_conversion_result() for r in coll.rules}
        return {"outcome": "ok", "order": order, "flags": flags, "results": results, "output": out}
    except Exception as e:
        return {"outcome": outcome_of_exception(e), "stage": "convert", "msg": str(e)[:160]}


def make_request(case, impl, gen):
    docs = [case["docs"][i] for i in case["perm"]]
    keyid = {}

    def key(x):
        return keyid.setdefault(x, len(keyid))
    jd = []
    for d in docs:
        keys = [key(d[k]) for k in ("name", "id") if k in d]
        c = d.get("correlation")
        jd.append({"keys": keys, "refs": [key(r) for r in refs_of(c)] if c else [], "generate": bool(c and c.get("generate"))})
    r = {"op": "coll.check", "docs": jd}
    if impl["outcome"] == "ok":
        r["implOrder"] = impl["order"]
    return r


_ref = {}


def via(case):
    if case["path"] in ("errmerge", "errfiles"):
        docs = [case["docs"][i] for i in case["perm"]]
        bad = ", ".join(f"{docs[i]['title']} has {BOGUS[b][0]}: {BOGUS[b][1]}" for i, b in case["bad"])
        if case["path"] == "errmerge":
            bounds = [0] + case["cuts"] + [len(docs)]
            return (f"SigmaCollection.merge of the parts {[[d['title'] for d in docs[a:b]] for a, b in zip(bounds, bounds[1:])]}, each loaded with "
                    f"from_dicts(collect_errors=True, resolve_references=False); collected unrelated errors: {bad}")
        return (f"load_ruleset(collect_errors=True) of one file per document ({'files listed in document order' if case['cuts'] else 'directory'}, "
                f"file names {[f'{k:02d}.yml' for k in case['names']]}); collected unrelated errors: {bad}")
    if case["path"] != "partmerge":
        return case["path"]
    docs = [case["docs"][i] for i in case["perm"]]
    parts = [f"{[docs[i]['title'] for i in part]} loaded {'resolved' if res else 'with resolve_references=False'}" for part, res in zip(case["parts"], case["resolved"])]
    return f"merge of {' + '.join(parts)}, " + ("resolved by the merge" if case["final"] else "merge(resolve_references=False), resolution left to Backend.convert")


def judge(case, impl, reply):
    io = impl["outcome"]
    docs = [case["docs"][i] for i in case["perm"]]
    key = (case["set"], case["perm"], case["path"])
    has_ref = any("correlation" in d for d in docs)
    tags = [f"path:{case['path']}", f"n:{len(docs)}", f"impl:{io.split(':')[0]}", f"resolve:{reply['resolve']}"]
    if io.startswith("other:"):
        return Verdict("violation", f"{io} at {impl.get('stage')}: {impl.get('msg')} for order {[d['title'] for d in docs]} via {via(case)}", has_ref, key, tags=tuple(tags))
    if case["path"] == "partmerge":
        key = key + (case["parts"], case["resolved"], case["final"])
        tags.append(f"partmerge:{'merge-resolves' if case['final'] else 'deferred'}:{sum(case['resolved'])}of{len(case['parts'])}-resolved")
    if case["path"] in ("errmerge", "errfiles"):
        key = key + (case["bad"], case["cuts"], case["names"] if case["path"] == "errfiles" else None)
        tags.append(f"errdocs:{len(case['bad'])}:parts:{len(case['cuts']) + 1}")
    if reply["resolve"] == "missing":
        if io.startswith("sigma:") and impl.get("stage") == "load":
            return Verdict("ok", "", has_ref, key, tags=tuple(tags))
        if case["path"] == "partmerge" and not case["final"] and io == "sigma:SigmaRuleNotFoundError":
            return Verdict("ok", "", has_ref, key, tags=tuple(tags))        # resolution deferred to convert by the caller: reported there
        return Verdict("violation", f"a reference to a missing rule must be a Sigma error at load time; got {io} at {impl.get('stage')} for {[d['title'] for d in docs]} via {via(case)}", has_ref, key, tags=tuple(tags))
    if io != "ok":
        return Verdict("violation", f"all references exist but {io} at {impl.get('stage')}: {impl.get('msg')} for document order {[d['title'] for d in docs]} via {via(case)}", has_ref, key, tags=tuple(tags))
    if not reply["implOrderValid"]:
        return Verdict("violation", f"rule order {[docs[i]['title'] for i in impl['order']]} does not put every referenced rule before its referrers (document order {[d['title'] for d in docs]}, via {via(case)})", has_ref, key, tags=tuple(tags))
    for i, d in enumerate(docs):
        want = reply["specFlags"][i]
        if want is not None and impl["flags"][d["title"]] != want:
            return Verdict("violation", f"rule {d['title']} output flag {impl['flags'][d['title']]} but the property says {want} (document order {[x['title'] for x in docs]}, via {via(case)})", has_ref, key, tags=tuple(tags))
    # same per-rule results for every permutation / path of the same set: compare with the first seen
    sig = {t: r for t, r in impl["results"].items()}
    ref = _ref.setdefault(case["set"], (sig, case["perm"], case["path"]))
    if ref[0] != sig:
        diff = [t for t in sig if sig[t] != ref[0].get(t)]
        return Verdict("violation", f"rules {diff} convert differently for document order {case['perm']} via {via(case)} than for {ref[1]} via {ref[2]}: {[sig[t] for t in diff]} vs {[ref[0].get(t) for t in diff]}", has_ref, key, tags=tuple(tags))
    # emitted output = results of output-enabled rules in rule order
    want_out = [q for i in impl["order"] for q in (impl["results"][docs[i]["title"]] if impl["flags"][docs[i]["title"]] else [])]
    if impl["output"] != want_out:
        return Verdict("violation", f"emitted queries {impl['output']} are not the output-enabled rules' queries in rule order {want_out}", has_ref, key, tags=tuple(tags))
    if case["path"] in ("remerge", "partmerge"):
        return Verdict("ok", "", has_ref, key, tags=tuple(tags + ["nodrift:merge-order"]))
    if case["path"] == "errfiles":
        return Verdict("ok", "", has_ref, key, tags=tuple(tags + ["nodrift:glob-order"]))         # correlation rules first, then the plain rules
    if case["path"] == "load_ruleset":
        return Verdict("ok", "", has_ref, key, tags=tuple(tags + ["nodrift:glob-order"]))   # file enumeration order is the OS's
    if impl["order"] != reply["modelOrder"] or [impl["flags"][d["title"]] for d in docs] != reply["modelFlags"]:
        return Verdict("drift", f"model order {reply['modelOrder']} / flags {reply['modelFlags']} vs impl {impl['order']} / {impl['flags']}", has_ref, key, tags=tuple(tags))
    return Verdict("ok", "", has_ref, key, tags=tuple(tags))
