"""C17 — placeholders expand completely or conversion fails; never emitted as text.

Rules whose values contain %placeholders% (inserted by the expand modifier) are converted through
pipelines built from value-list / wildcard / query-expression placeholder items with include/exclude
lists and variable tables.  Oracle: the Lean specification (`Placeholder.applyItem`, wired into
`Rule.ruleBE`): the query must denote the OR over the cross product of the configured replacements, or the
conversion must fail with a Sigma error when a placeholder stays unresolved / a variable is missing or
ill-typed."""
from __future__ import annotations
import random
from .common import Verdict, cps, outcome_of_exception
from . import qsyntax, c01
from .c03 import plain

ID = "C17"
GEN = ["Mods", "Ph"]
RULE = ("values with 0..3 placeholders mixed with literals, wildcards and escaped percent signs in string, keyword and "
        "regular-expression position under expand combined with contains/startswith/endswith/all/cased; x pipelines of 0..3 "
        "placeholder items (value list, wildcard, query expression; include/exclude lists) in any order; x variable tables "
        "of 0..3 values (strings incl. wildcards, numbers, wrong types, missing); distinct = distinct (rule, pipeline); "
        "non-trivial = at least one placeholder"
        "; 20% of the cases convert twice through the same objects with the variable table changed in between")
RULE += '; round 5: variable values with blanks at their ends / differing only in them / empty; round 4: placeholder names with blanks, dashes, dots, non-ASCII letters, leading digits'
ASSUMPTIONS = [
    "placeholders inside regular expressions are only checked for 'conversion fails when unresolved'; their replacement is not modelled",
    "query expressions are compared as (field, expression template, identifier) atoms",
] + c01.ASSUMPTIONS[:2]

VALUES = ["%a% -x", "-p%b%", "p%a%q", "%a%", "%a%%b%", "x%a%y%b%z", "%c%", "*%a%*", "%a%*", "\\%a%", "a\\%b%a%", "%a% and %b%", "plain", "%a%%a%", "%b%x",
          "%zz%", "100%", "%", "%%", "%a", "%a%?",
          # names are everything between two percent signs: blanks, dashes, dots, non-ASCII letters, digits first
          "%Domain Admins%", "x%dom-adm%", "%d.a%%a%", "%Ünïcode%y", "%1st%"]
VARS_POOL = {"a": [["v1", "v2"], ["v1"], "single", ["w*", 3], [1.5, "x y"], [], [None], {"k": 1}, ["a\\*b"], [True],
                   # values are inserted exactly as configured: blanks at their ends, values differing only in them, the empty string
                   [" -enc ", "su ", "su"], " lead", ["trail\t", ""]],
             "b": [["b1", "b2"], "B", [2], ["*"], None, [" b1", "b1"]],
             "c": [["c1"], ["c1", "c2", "c3"]],
             "Domain Admins": [["da1", "da2"], "DA"], "dom-adm": [["m1"]], "d.a": ["p", ["p1", "p2"]], "Ünïcode": [["u"]], "1st": [[1]]}


def gen_pipeline(rnd):
    n = rnd.choice([0, 1, 1, 1, 2, 2, 3])
    items = []
    for _ in range(n):
        kind = rnd.choice(["value", "value", "wildcard", "query"])
        ie = rnd.random()
        inc = exc = None
        if ie < 0.3:
            inc = rnd.sample(["a", "b", "c", "zz", "Domain Admins", "dom-adm", "d.a"], rnd.randint(1, 2))
        elif ie < 0.5:
            exc = rnd.sample(["a", "b", "c", "zz", "Domain Admins", "dom-adm", "d.a"], rnd.randint(1, 2))
        it = {"kind": kind, "include": inc, "exclude": exc}
        if kind == "query":
            it["mapping"] = rnd.choice([{}, {"a": "list_a"}, {"b": "LB", "c": "LC"}])
        items.append(it)
    vars_ = {}
    for k, pool in VARS_POOL.items():
        if rnd.random() < 0.85:
            vars_[k] = rnd.choice(pool)
    return {"items": items, "vars": vars_}


def gen_cases(tier, seed, gen, effort):
    rnd = random.Random(seed * 5081 + 17)
    thorough = tier == "thorough"
    cases = []
    base_cfg = {"prec": ["not", "and", "or"], "parenthesize": False, "orAsIn": False, "andAsIn": False, "inAllowWild": False, "notAsNotEq": False,
                "sw": True, "ew": True, "ct": True, "wm": False, "swSpecial": False, "ewSpecial": False, "ctSpecial": False,
                "cased": "all", "explicitNotExists": False, "nativeCidr": True}
    for _ in range((2500 if not thorough else 40000) * effort):
        mods = rnd.choice(["expand", "expand", "expand|contains", "contains|expand", "expand|all", "expand|startswith", "expand|cased", "cased|expand",
                           "expand|endswith|all", "", "re|expand", "expand|windash", "expand|windash|all",
                           "re|expand|startswith", "re|expand|endswith", "re|expand|contains", "re|startswith|expand", "re|i|expand"])
        v = rnd.choice(VALUES)
        if rnd.random() < 0.35:
            v = [v, rnd.choice(VALUES)]
        fld = rnd.choice(["f", "g", ""])
        if fld == "" and "cased" in mods:
            fld = "f"        # a case-sensitive keyword has no template in the backend (C01's subject, not generated here)
        key = fld + ("|" + mods if mods else "")
        if key == "":
            det = v
        else:
            det = {key: v}
            if rnd.random() < 0.3:
                det["h"] = rnd.choice([1, "%a%", "z"])
        cfg = dict(base_cfg, orAsIn=rnd.random() < 0.4, inAllowWild=rnd.random() < 0.5, andAsIn=rnd.random() < 0.3)
        cases.append({"dets": {"sel": det}, "cond": rnd.choice(["sel", "not sel"]), "cfg": cfg, "pipe": gen_pipeline(rnd)})
        if rnd.random() < 0.2:
            cases[-1]["revars"] = True
    return cases, False


def pipeline_dict(pipe):
    ts = []
    for it in pipe["items"]:
        d = {"type": {"value": "value_placeholders", "wildcard": "wildcard_placeholders", "query": "query_expression_placeholders"}[it["kind"]]}
        if it["include"] is not None: d["include"] = it["include"]
        if it["exclude"] is not None: d["exclude"] = it["exclude"]
        if it["kind"] == "query":
            d["expression"] = qsyntax.QX_EXPR
            d["mapping"] = it["mapping"]
        ts.append(d)
    return {"name": "p", "priority": 10, "vars": pipe["vars"], "transformations": ts}


def run_impl(case):
    from sigma.collection import SigmaCollection
    from sigma.processing.pipeline import ProcessingPipeline
    try:
        coll = SigmaCollection.from_dicts([{"title": "t", "logsource": {"category": "c"},
                                            "detection": {**case["dets"], "condition": case["cond"]}}])
        pl = ProcessingPipeline.from_dict(pipeline_dict(case["pipe"]))
        b = qsyntax.make_backend(case["cfg"])(pl)
        if case.get("revars"):
            # the same pipeline and transformation objects converted the rule once with OTHER variable values: the second
            # conversion must use the variables as they are now
            real = dict(pl.vars)
            pl.vars = {k: ["stale1", "stale2", "stale3"] for k in real}
            try:
                b.convert(SigmaCollection.from_dicts([{"title": "t", "logsource": {"category": "c"},
                                                        "detection": {**case["dets"], "condition": case["cond"]}}]))
            except Exception:
                pass
            pl.vars = real
        return {"outcome": "ok", "queries": b.convert(coll)}
    except NotImplementedError as e:
        return {"outcome": "unsupported", "msg": str(e)[:100]}
    except Exception as e:
        return {"outcome": outcome_of_exception(e), "msg": str(e)[:160]}


def var_json(v):
    vals = v if isinstance(v, list) else [v]
    out = []
    for x in vals:
        if isinstance(x, (str, int, float)):
            out.append({"text": cps(str(x))})
        else:
            out.append("bad")
    return out


def make_request(case, impl, gen):
    r = c01.make_sem_request(case, impl, gen)
    r["phItems"] = [{"kind": it["kind"], "include": [cps(x) for x in it["include"]] if it["include"] is not None else None,
                     "exclude": [cps(x) for x in it["exclude"]] if it["exclude"] is not None else None,
                     "expr": cps(qsyntax.QX_EXPR), "mapping": [[cps(k), cps(v)] for k, v in it.get("mapping", {}).items()]}
                    for it in case["pipe"]["items"]]
    r["vars"] = [[cps(k), var_json(v)] for k, v in case["pipe"]["vars"].items()]
    return r


def judge(case, impl, reply):
    io = impl["outcome"]
    key = (case["dets"], case["cond"], case["pipe"], case.get("revars"))
    text = repr(case["dets"])
    nt = "%" in text
    tags = [f"impl:{io.split(':')[0]}", f"items:{len(case['pipe']['items'])}"]
    r = reply["items"][0]
    if io.startswith("other:"):
        return Verdict("violation", f"non-Sigma exception {io}: {impl.get('msg')} for {case['dets']} with pipeline {case['pipe']}", nt, key, tags=tuple(tags))
    if "|re" in text and "%" in text:
        # regular expressions: replacement is not modelled; judged only: never emitted raw
        import re as _re
        raw = [m for q in impl.get("queries", []) for m in _re.findall(r"\[n?re [^\]]*?(%[a-z]+%)", q)]
        if io == "ok" and raw and "\\%" not in text:
            return Verdict("violation", f"{case['dets']}: unresolved placeholder text {raw} emitted in {impl['queries']}", nt, key, tags=tuple(tags))
        return Verdict("ok", "", nt, key, tags=tuple(tags + ["unjudged:regex-placeholder"]))
    if "specErr" in r and r["specErr"] in ("placeholder", "unresolved"):
        tags.append("spec:" + r["specErr"])
        if io.startswith("sigma:"):
            return Verdict("ok", "", nt, key, tags=tuple(tags))
        from .common import uncps
        return Verdict("violation", (f"{case['dets']} with pipeline {case['pipe']}: the specification demands a Sigma error ({r['specErr']}: "
                                     f"{r.get('detail', '')} {uncps(r.get('name', []))!r}) but the conversion returned {impl.get('queries')}"), nt, key, tags=tuple(tags))
    return _with(c01.judge_sem(case, impl, reply), nt, key, tags)


def _with(v, nt, key, tags):
    v.nontrivial = nt
    v.key = key
    v.tags = tuple(tags) + tuple(t for t in v.tags if t.startswith(("atoms:", "inlist", "unjudged", "both")))
    return v


shrink = c01.shrink
