"""C08 — a failing rule never changes other rules' output; every query is accounted for.

Collections of 1..6 rules (single- and multi-condition, with and without a pipeline) in which any subset
fails at any stage (pipeline failure transformation, unresolved placeholder, value type the backend cannot
render, condition naming a missing detection), in every position.  Observable: the emitted query list and
the (rule, error) records of one `Backend.convert` with error collection on / off.  Deciding: compared with
converting every rule *alone* with a fresh backend (each rule's queries must be exactly its solo queries,
in collection order; a failing rule contributes no query and exactly one record carrying its solo error;
without collection the first failing rule's error is raised).  Diagnostic: the Lean model `convertAll`.

Round 4: (a) the `callback` parameter of `Backend.convert` (documented: the returned value replaces the query, only None
skips it) with pure callbacks of several value classes (identity, condition index, counts, booleans, empty and non-empty
strings/containers, skipping); the expected list is the callback applied by hand to the solo queries, so every condition
stays accounted for.  (b) a backend whose query frame reads the pipeline state with backend defaults
(`query_expression` with `{state[..]}` + `state_defaults`) under a pipeline that sets the state for some rules only
(also for rules that fail afterwards): the state a rule leaves must not be visible in a later rule's query.  Every backend
instance gets a fresh class with its own copies of all mutable class-level containers, so the solo oracle cannot be
contaminated by state another conversion left on a shared class.

Round 5: stream 'templates'.  "Each query equals what converting the rule alone yields" is quantified over all rules, so also
over rules that use the match forms a text backend renders with a dedicated template each (startswith / endswith / contains,
plain and case-sensitive, regular expression, CIDR, exact and case-sensitive exact match, wildcard match, exists, null, numeric
comparison, field reference).  Kinds `okmatch` (one item of every form), `oknotmatch` (the same items below a NOT) and
`notmatchplaceholder` (the same items below a NOT, the last one with an unresolved placeholder: fails inside the negated part)
are arranged with the other kinds in every position, under the backend variants incl. `noteqfull` = dedicated negated
templates for every form (`convert_not_as_not_eq` with all `not_*` / `case_sensitive_not_*` expressions).  Whatever templates a
conversion uses or swaps for one rule, a later (or earlier) rule's query is its solo query."""
from __future__ import annotations
import copy, random
from .common import Verdict, outcome_of_exception

ID = "C08"
GEN = ["Pipe"]
RULE = ("collections of 1..6 rules drawn from {ok single condition, ok two conditions, fails in pipeline, unresolved "
        "placeholder, unrenderable value, missing detection in condition} in every position (all arrangements up to "
        "length 3 exhaustively, sampled beyond) x pipeline on/off x error collection on/off; distinct = distinct "
        "(arrangement, pipeline, collect); non-trivial = at least one failing and one succeeding rule"
        "; x backend variants (not-equals rendering, no in-lists) x a pipeline with an added condition and in-place field/value transformations; plus arrangements of verbatim copies of one rule"
        "; correlation rules over a failing referenced rule (in every order, collecting and not)"
        "; round 4: x conversion callback {identity, condition index, wildcard count, boolean, blank string, empty/non-empty container, skip odd} "
        "judged against the callback applied by hand to the solo queries; x backend whose query frame reads the pipeline state with "
        "state_defaults under a pipeline that sets the state for some rules only (incl. rules failing afterwards)"
        "; round 5: stream 'templates' = rules with one item of every match form a text backend has a template for (startswith/endswith/contains plain "
        "and cased, re, cidr, exact, cased exact, wildcard, exists, null, compare, fieldref) plain (okmatch), below a NOT (oknotmatch) and below a NOT with a "
        "failing item (notmatchplaceholder), arranged with the other kinds in every position (all arrangements of length 2, sampled 3..5) x backends "
        "{std, noteq, noteqfull (a dedicated negated template for every form), noin} x pipelines x error collection on/off"
        "; round 7: stream 'nest' = the arrangements under a pipeline that sets the state and fails rules inside a nested pipeline, with "
        "state-conditioned field mappings inside and after the nest, x backends {std, state frame, noteq} x error collection on/off")
ASSUMPTIONS = [
    "a backend that lacks a feature raises NotImplementedError, which pySigma deliberately does not collect: failure stages are the four the property names, all Sigma errors",
    "correlation rules are C09/C10's subject; here collections contain detection rules only",
]
KINDS = ["ok1", "ok2", "pipefail", "placeholder", "badvalue", "missingdet", "oknot", "notplaceholder"]
# round 5: kinds of the 'templates' stream (own stream: the arrangements over KINDS stay as they were)
MATCH_KINDS = ["okmatch", "oknotmatch", "notmatchplaceholder"]


def match_items(i):
    """one detection item of every match form the text backend renders with a template of its own"""
    return {"fieldA|startswith": f"pre{i}", "fieldB|endswith": f"suf{i}", "fieldC|contains": f"mid{i}",
            "fieldD|startswith|cased": f"Pre{i}", "fieldE|endswith|cased": f"Suf{i}.EXE", "fieldF|contains|cased": f"Mid{i}",
            "fieldG|re": f"a{i}.*b", "fieldH|cidr": "10.0.0.0/8", "fieldI": f"exact{i}", "fieldJ|cased": f"Exact{i}",
            "fieldK|exists": True, "fieldL": None, "fieldM|gt": 5 + i, "fieldN|fieldref": "fieldI", "fieldO": f"wild*card{i}"}


def rule_doc(kind, i):
    base = {"title": f"{kind}_{i}", "logsource": {"category": "fail" if kind == "pipefail" else "c", "product": "p"}}
    if kind == "ok1":
        base["detection"] = {"sel": {"fieldA": f"v{i}", "g": [1, 2]}, "condition": "sel"}
    elif kind == "ok2":
        base["detection"] = {"sel": {"fieldA": f"v{i}"}, "flt": {"h": "x*"}, "condition": ["sel and not flt", "sel or flt"]}
    elif kind == "pipefail":
        base["detection"] = {"sel": {"fieldA": f"v{i}"}, "condition": "sel"}
    elif kind == "placeholder":
        base["detection"] = {"sel": {"fieldA|expand": f"%nope{i}%"}, "condition": "sel"}
    elif kind == "badvalue":
        base["detection"] = {"sel": {"fieldA": f"v{i}"}, "kw": [True], "condition": "sel and kw"}
    elif kind == "oknot":
        base["detection"] = {"sel": {"fieldA": f"v{i}"}, "flt": {"fieldB|startswith": "begin", "fieldA": f"w{i}"}, "condition": "sel and not flt"}
    elif kind == "notplaceholder":      # fails below a NOT, after the pipeline was applied
        base["detection"] = {"sel": {"fieldA": f"v{i}"}, "flt": {"fieldB|expand": f"%nope{i}%"}, "condition": "sel and not flt"}
    elif kind == "missingdet":
        base["detection"] = {"sel": {"fieldA": f"v{i}"}, "condition": "sel and nosuchdetection"}
    elif kind == "usestarget":      # names the TARGET of the pipeline's field mapping directly (under a strict mapping check: not a mapped field)
        base["detection"] = {"sel": {"mappedA": f"v{i}"}, "condition": "sel"}
    elif kind == "unmapped":        # a field the mapping does not know
        base["detection"] = {"sel": {"fieldA": f"v{i}", "zzz": 1}, "condition": "sel"}
    elif kind == "okmatch":
        base["detection"] = {"sel": match_items(i), "condition": "sel"}
    elif kind == "oknotmatch":
        base["detection"] = {"sel": {"fieldA": f"v{i}"}, "flt": match_items(i), "condition": "sel and not flt"}
    elif kind == "notmatchplaceholder":   # fails at the last item of the negated part, after the others were rendered
        base["detection"] = {"sel": {"fieldA": f"v{i}"}, "flt": dict(match_items(i), **{"fieldP|expand": f"%nope{i}%"}), "condition": "sel and not flt"}
    return base


PIPE = {"name": "p", "priority": 10, "transformations": [
    {"id": "map", "type": "field_name_mapping", "mapping": {"fieldA": "mappedA"}},
    {"id": "boom", "type": "rule_failure", "message": "not supported", "rule_conditions": [{"type": "logsource", "category": "fail"}]},
]}
PIPE_NOFAIL = {"name": "p", "priority": 10, "transformations": [PIPE["transformations"][0]]}
# a static added condition followed by in-place field and value transformations, and a conditional state
PIPE_ADD = {"name": "p", "priority": 10, "transformations": [
    {"id": "add", "type": "add_condition", "conditions": {"source": "eventlog", "n": [1, 2]}},
    {"id": "pre", "type": "field_name_prefix", "prefix": "win."},
    {"id": "suf", "type": "field_name_suffix", "suffix": ".keyword", "field_name_conditions": [{"type": "include_fields", "fields": ["win.source"]}]},
    {"id": "rep", "type": "replace_string", "regex": "^", "replacement": "x"},
    PIPE["transformations"][1],
]}
# the pipeline state is set for some rules only: those with field h (ok2), those with fieldB (oknot, and notplaceholder which
# fails afterwards in the conversion), and those that fail later in the pipeline itself
PIPE_STATE = {"name": "p", "priority": 10, "transformations": [
    PIPE["transformations"][0],
    {"id": "st_h", "type": "set_state", "key": "idx", "val": "special", "rule_conditions": [{"type": "contains_field", "field": "h"}]},
    {"id": "st_b", "type": "set_state", "key": "src", "val": "fromB", "rule_conditions": [{"type": "contains_field", "field": "fieldB"}]},
    {"id": "st_f", "type": "set_state", "key": "idx", "val": "failing", "rule_conditions": [{"type": "logsource", "category": "fail"}]},
    {"id": "st_f2", "type": "set_state", "key": "extra", "val": "left", "rule_conditions": [{"type": "logsource", "category": "fail"}]},
    PIPE["transformations"][1],
]}
# a strict field-mapping check after the mapping: which fields count as mapped is bookkeeping of the rule at hand only
PIPE_STRICT = {"name": "p", "priority": 10, "transformations": [
    {"id": "map", "type": "field_name_mapping", "mapping": {"fieldA": "mappedA", "g": ["g1", "g2"], "h": "h", "fieldB": "mappedB"}},
    {"id": "strict", "type": "strict_field_mapping_failure"},
    PIPE["transformations"][1],
]}
# round 7: the state is set (and a rule may fail) INSIDE a nested pipeline, whose ProcessingPipeline object lives as long as the
# enclosing one; after the nest a field mapping and the query frame depend on the state.  What a rule (failing or not) left in
# the nested pipeline must not reach a later rule.
PIPE_NEST = {"name": "p", "priority": 10, "transformations": [
    {"id": "nest", "type": "nest", "items": [
        {"id": "n_h", "type": "set_state", "key": "idx", "val": "special", "rule_conditions": [{"type": "contains_field", "field": "h"}]},
        {"id": "n_b", "type": "set_state", "key": "src", "val": "fromB", "rule_conditions": [{"type": "contains_field", "field": "fieldB"}]},
        {"id": "n_f", "type": "set_state", "key": "idx", "val": "failing", "rule_conditions": [{"type": "logsource", "category": "fail"}]},
        {"id": "n_f2", "type": "set_state", "key": "extra", "val": "left", "rule_conditions": [{"type": "logsource", "category": "fail"}]},
        {"id": "n_map", "type": "field_name_mapping", "mapping": {"g": "gInner"}, "rule_conditions": [{"type": "processing_state", "key": "src", "val": "fromB"}]},
        PIPE["transformations"][1],
    ]},
    {"id": "m_idx", "type": "field_name_mapping", "mapping": {"fieldA": "specialA"}, "rule_conditions": [{"type": "processing_state", "key": "idx", "val": "special"}]},
    {"id": "m_fail", "type": "field_name_mapping", "mapping": {"fieldA": "failingA"}, "rule_conditions": [{"type": "processing_state", "key": "idx", "val": "failing"}]},
    {"id": "m_extra", "type": "field_name_prefix", "prefix": "left.", "rule_conditions": [{"type": "processing_state", "key": "extra", "val": "left"}]},
]}
PIPES = {False: PIPE_NOFAIL, True: PIPE, "add": PIPE_ADD, "state": PIPE_STATE, "strict": PIPE_STRICT, "nest": PIPE_NEST}
# backend variants: class attributes of a fresh TextQueryTestBackend subclass
BACKENDS = {"std": {}, "noteq": {"convert_not_as_not_eq": True, "not_eq_token": "!="},
            "noin": {"convert_or_as_in": False, "convert_and_as_in": False},
            # dedicated negated templates for every match form
            "noteqfull": {"convert_not_as_not_eq": True, "not_eq_token": "!=", "not_eq_expression": "{field}!={value}", "not_re_expression": "{field}!=/{regex}/",
                          "not_cidr_expression": "cidrnotmatch('{field}', \"{value}\")", "not_startswith_expression": "{field} not_startswith {value}",
                          "not_endswith_expression": "{field} not_endswith {value}", "not_contains_expression": "{field} not_contains {value}",
                          "case_sensitive_not_startswith_expression": "{field} not_startswith_cased {value}",
                          "case_sensitive_not_endswith_expression": "{field} not_endswith_cased {value}",
                          "case_sensitive_not_contains_expression": "{field} not_contains_cased {value}"},
            # the query frame reads the pipeline state; keys the pipeline did not set for the rule come from the backend's defaults
            "state": {"query_expression": "idx={state[idx]} src={state[src]} extra={state[extra]} | {query}",
                      "state_defaults": {"idx": "main", "src": "any", "extra": "none"}}}
CALLBACKS = ["id", "index", "stars", "flag", "blank", "box", "emptybox", "skipodd"]


def apply_callback(kind, title, index, result):
    """The pure conversion callbacks of the sweep, as functions of (rule title, condition index, query).  Documented contract of
    the `callback` parameter: the returned value replaces the query; only None skips it."""
    if result is None:
        return None
    if kind == "id":
        return result
    if kind == "index":
        return index
    if kind == "stars":
        return result.count("*")
    if kind == "flag":
        return "*" in result
    if kind == "blank":
        return result if "*" in result else ""
    if kind == "box":
        return [title, index, result]
    if kind == "emptybox":
        return [result] if index else []
    if kind == "skipodd":
        return None if index % 2 else result
    raise ValueError(kind)


def mk_callback(kind):
    if kind is None:
        return None
    return lambda rule, output_format, index, cond, result: apply_callback(kind, rule.title, index, result)


def gen_cases(tier, seed, gen, effort):
    import itertools
    rnd = random.Random(seed * 811 + 8)
    thorough = tier == "thorough"
    arrs = []
    for n in (1, 2, 3):
        arrs += list(itertools.product(KINDS, repeat=n))
    for _ in range((300 if not thorough else 5000) * effort):
        arrs.append(tuple(rnd.choice(KINDS) for _ in range(rnd.randint(4, 6))))
    cases = []
    for a in arrs:
        for pipe in (True, False, "add"):
            if pipe is not True and (len(a) > 2 and rnd.random() < 0.6):
                continue
            for collect in (True, False):
                be = "std" if rnd.random() < 0.5 else rnd.choice(["noteq", "noin"])
                cases.append({"kinds": list(a), "pipe": pipe, "collect": collect, "backend": be})
    # correlation rules whose referenced rule fails: they cannot be converted either and get exactly one record; the rest is untouched
    for order in ([0, 1, 2, 3], [2, 3, 0, 1], [1, 3, 0, 2], [3, 2, 1, 0]):
        for failkind in ("placeholder", "badvalue", "missingdet", "pipefail"):
            for collect in (True, False):
                cases.append({"corrfail": failkind, "order": order, "collect": collect, "kinds": ["corrfail"], "pipe": True, "backend": "std"})
    # verbatim copies of a rule (equal objects): every copy still contributes its own queries / its own error record
    for a in arrs[: (400 if not thorough else 4000)]:
        if len(a) >= 2 and len(set(a)) < len(a):
            cases.append({"kinds": list(a), "pipe": True, "collect": True, "backend": "std", "same": True})
    # round 4 (b): a backend whose query frame reads the pipeline state, the pipeline sets it for some rules only
    for a in arrs:
        if len(a) < 2 or (len(a) == 3 and rnd.random() < 0.5):
            continue
        for collect in (True, False):
            cases.append({"kinds": list(a), "pipe": "state" if rnd.random() < 0.85 else rnd.choice([True, "add"]), "collect": collect, "backend": "state"})
    # round 4 (a): convert with a callback
    for a in arrs:
        if len(a) == 3 and rnd.random() < 0.4:
            continue
        cases.append({"kinds": list(a), "pipe": rnd.choice([True, True, False, "add", "state"]), "collect": rnd.random() < 0.7,
                      "backend": rnd.choice(["std", "std", "noteq", "noin", "state"]), "callback": rnd.choice(CALLBACKS)})
    # round 5 (b): stream 'strict' (own random stream) - a strict field-mapping check; rules naming a mapping target or an unknown field
    # directly fail on their own, wherever they stand
    rnd6 = random.Random(seed * 5701 + 86)
    sk = ["ok1", "ok2", "oknot", "usestarget", "unmapped", "pipefail", "placeholder"]
    sarrs = [a for n in (1, 2) for a in itertools.product(sk, repeat=n)] + [tuple(rnd6.choice(sk) for _ in range(rnd6.randint(3, 5))) for _ in range((120 if not thorough else 2000) * effort)]
    for a in sarrs:
        for collect in (True, False):
            cases.append({"kinds": list(a), "pipe": "strict", "collect": collect, "backend": rnd6.choice(["std", "std", "noin"]), "stream": "strict"})
    # round 5: stream 'templates' (own random stream) - rules with one item of every match form, plain / negated / failing in the negated
    # part, in every position next to the other kinds
    rnd5 = random.Random(seed * 6007 + 85)
    allk = KINDS + MATCH_KINDS
    tarrs = [a for a in itertools.product(allk, repeat=2) if set(a) & set(MATCH_KINDS)]
    for _ in range((150 if not thorough else 3000) * effort):
        a = tuple(rnd5.choice(allk if rnd5.random() < 0.5 else MATCH_KINDS + ["oknot", "notplaceholder"]) for _ in range(rnd5.randint(3, 5)))
        if set(a) & set(MATCH_KINDS):
            tarrs.append(a)
    for a in tarrs:
        # a backend with negated templates for some forms only (noteq) cannot render every negated form: NotImplementedError, not collected
        negated = bool(set(a) & {"oknotmatch", "notmatchplaceholder"})
        for be in ("std", "noteqfull", "noin" if negated else "noteq"):
            if be in ("std", "noin") and rnd5.random() < 0.5:
                continue
            for collect in (True, False):
                cases.append({"kinds": list(a), "pipe": rnd5.choice([True, False, "add", "state"]), "collect": collect, "backend": be, "stream": "templates"})
    # round 7: stream 'nest' (own random stream) - state set and failures raised inside a nested pipeline
    rnd7 = random.Random(seed * 7121 + 87)
    narrs = [a for n in (1, 2) for a in itertools.product(KINDS, repeat=n)]
    narrs += [tuple(rnd7.choice(KINDS) for _ in range(rnd7.randint(3, 5))) for _ in range((150 if not thorough else 3000) * effort)]
    for a in narrs:
        for collect in (True, False):
            cases.append({"kinds": list(a), "pipe": "nest", "collect": collect, "backend": rnd7.choice(["std", "state", "state", "noteq"]), "stream": "nest"})
    return cases, False


def mk_backend(pipe, collect, be="std"):
    from sigma.backends.test import TextQueryTestBackend
    from sigma.processing.pipeline import ProcessingPipeline
    pl = ProcessingPipeline.from_dict(copy.deepcopy(PIPES[pipe]))
    # a fresh class per backend with its own copies of every mutable class-level container: no class state is shared between the
    # solo conversions and the conversion of the collection
    attrs = {}
    for name in dir(TextQueryTestBackend):
        if not name.startswith("__"):
            v = getattr(TextQueryTestBackend, name, None)
            if isinstance(v, (dict, list, set)):
                attrs[name] = copy.deepcopy(v)
    attrs.update(copy.deepcopy(BACKENDS[be]))
    cls = type("B_" + be, (TextQueryTestBackend,), attrs)
    return cls(pl, collect_errors=collect)


def corrfail_docs(case):
    bad = dict(rule_doc(case["corrfail"], 0), name="bad_rule")
    good = dict(rule_doc("ok1", 1), name="good_rule")
    corr = lambda t, ref: {"title": t, "correlation": {"type": "event_count", "rules": [ref], "group-by": ["fieldA"], "timespan": "5m", "condition": {"gte": 2}}}
    return [bad, good, corr("corr_on_bad", "bad_rule"), corr("corr_on_good", "good_rule")]


def run_corrfail(case):
    from sigma.collection import SigmaCollection
    docs = corrfail_docs(case)
    out = {"outcome": "ok"}
    try:       # what the good pair converts to without the failing pair around
        out["want"] = mk_backend(True, False).convert(SigmaCollection.from_dicts(copy.deepcopy([docs[1], docs[3]])))
        b = mk_backend(True, case["collect"])
        try:
            out["output"] = b.convert(SigmaCollection.from_dicts(copy.deepcopy([docs[i] for i in case["order"]])))
            out["errors"] = [[r.title, outcome_of_exception(e)] for r, e in b.errors]
        except Exception as e:
            out["raised"] = outcome_of_exception(e)
    except Exception as e:
        return {"outcome": "harness:" + outcome_of_exception(e), "msg": str(e)[:200]}
    return out


def run_impl(case):
    from sigma.collection import SigmaCollection
    if case.get("corrfail"):
        return run_corrfail(case)
    docs = [rule_doc(k, 0 if case.get("same") else i) for i, k in enumerate(case["kinds"])]     # "same": verbatim copies of a rule
    solo = []
    for d in docs:
        try:
            b = mk_backend(case["pipe"], False, case.get("backend", "std"))
            solo.append({"ok": b.convert(SigmaCollection.from_dicts([copy.deepcopy(d)]))})
        except Exception as e:
            solo.append({"err": outcome_of_exception(e)})
    try:
        b = mk_backend(case["pipe"], case["collect"], case.get("backend", "std"))
        coll = SigmaCollection.from_dicts(copy.deepcopy(docs))
        out = b.convert(coll, callback=mk_callback(case["callback"])) if case.get("callback") else b.convert(coll)
        return {"outcome": "ok", "output": out, "errors": [[r.title, outcome_of_exception(e)] for r, e in b.errors], "solo": solo}
    except Exception as e:
        return {"outcome": outcome_of_exception(e), "msg": str(e)[:120], "solo": solo}


def title_of(case, i):
    return f"{case['kinds'][i]}_{0 if case.get('same') else i}"


def solo_expected(case, impl):
    """per rule: the entries the collection must contribute for it = its solo queries (converted alone by a fresh backend, no
    callback), with the case's callback applied by hand and the None results skipped"""
    cb = case.get("callback")
    res = []
    for i, s in enumerate(impl["solo"]):
        if "ok" not in s:
            res.append(None)
        elif cb is None:
            res.append(list(s["ok"]))
        else:
            vals = [apply_callback(cb, title_of(case, i), j, q) for j, q in enumerate(s["ok"])]
            res.append([v for v in vals if v is not None])
    return res


def make_request(case, impl, gen):
    if case.get("corrfail"):
        return {"op": "ping"}
    import json
    qid, eid = {}, {}
    rules = []
    exp = solo_expected(case, impl)
    for i, s in enumerate(impl["solo"]):
        if "ok" in s:
            res = {"ok": [qid.setdefault(json.dumps(q), len(qid)) for q in exp[i]]}
        else:
            res = {"err": eid.setdefault(s["err"], len(eid))}
        rules.append({"id": i, "refs": [], "output": True, "result": res})
    return {"op": "coll.convert", "collect": case["collect"], "rules": rules, "_q": None}


def judge_corrfail(case, impl):
    key = ("corrfail", case["corrfail"], tuple(case["order"]), case["collect"])
    tags = ("kind:corrfail", f"collect:{case['collect']}", f"impl:{impl['outcome'].split(':')[0]}")
    if impl["outcome"] != "ok":
        return Verdict("drift", f"harness could not convert the good pair: {impl.get('msg')}", True, key, tags=tags)
    titles = [corrfail_docs(case)[i]["title"] for i in case["order"]]
    if case["collect"]:
        if "raised" in impl:
            return Verdict("violation", f"error collection is on but convert raised {impl['raised']} for the collection {titles} (a correlation rule refers to a rule that fails: {case['corrfail']})", True, key, tags=tags)
        if impl["output"] != impl["want"]:
            return Verdict("violation", f"collection {titles}: emitted {impl['output']}, but only the correlation over the good rule can be converted: {impl['want']}", True, key, tags=tags)
        got = sorted(t for t, _ in impl["errors"])
        if got != sorted([f"{case['corrfail']}_0", "corr_on_bad"]):
            return Verdict("violation", f"collection {titles}: error records for {got}; exactly the failing rule and the correlation rule that refers to it cannot be converted", True, key, tags=tags)
    else:
        if "raised" not in impl or not impl["raised"].startswith("sigma:"):
            return Verdict("violation", f"collection {titles} without error collection: a Sigma error must be raised, got {impl.get('raised') or impl.get('output')}", True, key, tags=tags)
    return Verdict("ok", "", True, key, tags=tags)


def judge(case, impl, reply):
    if case.get("corrfail"):
        return judge_corrfail(case, impl)
    io = impl["outcome"]
    solo = impl["solo"]
    kinds = case["kinds"]
    key = (kinds, case["pipe"], case["collect"], case.get("backend", "std"), case.get("same"), case.get("callback"))
    fails = [i for i, s in enumerate(solo) if "err" in s]
    nt = 0 < len(fails) < len(kinds)
    tags = (f"n:{len(kinds)}", f"fails:{min(len(fails), 3)}", f"collect:{case['collect']}", f"pipe:{case['pipe']}", f"backend:{case.get('backend', 'std')}", f"impl:{io.split(':')[0]}",
            f"callback:{case.get('callback')}") + ((f"stream:{case['stream']}",) if case.get("stream") else ())
    cbtxt = f", callback={case['callback']}" if case.get("callback") else ""
    for i, s in enumerate(solo):
        if "err" in s and s["err"].startswith("other:"):
            return Verdict("violation", f"rule {kinds[i]} alone raises non-Sigma {s['err']}", nt, key, tags=tags)
    want_out = [q for e in solo_expected(case, impl) if e is not None for q in e]
    want_err = [[title_of(case, i), solo[i]["err"]] for i in fails]
    if case["collect"]:
        if io != "ok":
            return Verdict("violation", f"error collection is on but convert raised {io}: {impl.get('msg')} for {kinds}", nt, key, tags=tags)
        if impl["output"] != want_out:
            return Verdict("violation", f"collection {kinds} (pipeline={case['pipe']}, backend={case.get('backend', 'std')}{cbtxt}): emitted {impl['output']} but the rules converted alone give {want_out}", nt, key, tags=tags)
        if impl["errors"] != want_err:
            return Verdict("violation", f"collection {kinds}: error records {impl['errors']} but failing rules are {want_err}", nt, key, tags=tags)
    else:
        if fails:
            if io != solo[fails[0]]["err"]:
                return Verdict("violation", f"collection {kinds} without error collection: expected the first failing rule's error {solo[fails[0]]['err']} to be raised, got {io}", nt, key, tags=tags)
        else:
            if io != "ok" or impl["output"] != want_out:
                return Verdict("violation", f"collection {kinds} (pipeline={case['pipe']}, backend={case.get('backend', 'std')}{cbtxt}): {io} / {impl.get('output')} but the rules converted alone give {want_out}", nt, key, tags=tags)
    # model drift: convertAll
    if reply["outcome"] == "ok":
        if io != "ok" or len(reply["queries"]) != len(impl["output"]) or len(reply["errors"]) != len(impl["errors"]):
            return Verdict("drift", f"model ok({len(reply['queries'])} queries, {len(reply['errors'])} errors) vs impl {io}", nt, key, tags=tags)
    else:
        if io == "ok":
            return Verdict("drift", f"model raised at rule {reply['rule']} vs impl ok", nt, key, tags=tags)
    return Verdict("ok", "", nt, key, tags=tags)
