"""C08 — a failing rule never changes other rules' output; every query is accounted for.

Collections of 1..6 rules (single- and multi-condition, with and without a pipeline) in which any subset
fails at any stage (pipeline failure transformation, unresolved placeholder, value type the backend cannot
render, condition naming a missing detection), in every position.  Observable: the emitted query list and
the (rule, error) records of one `Backend.convert` with error collection on / off.  Deciding: compared with
converting every rule *alone* with a fresh backend (each rule's queries must be exactly its solo queries,
in collection order; a failing rule contributes no query and exactly one record carrying its solo error;
without collection the first failing rule's error is raised).  Diagnostic: the Lean model `convertAll`."""
from __future__ import annotations
import copy, random
from .common import Verdict, outcome_of_exception

ID = "C08"
GEN = ["Pipe"]
RULE = ("collections of 1..6 rules drawn from {ok single condition, ok two conditions, fails in pipeline, unresolved "
        "placeholder, unrenderable value, missing detection in condition} in every position (all arrangements up to "
        "length 3 exhaustively, sampled beyond) x pipeline on/off x error collection on/off; distinct = distinct "
        "(arrangement, pipeline, collect); non-trivial = at least one failing and one succeeding rule"
        "; x backend variants (not-equals rendering, no in-lists) x a pipeline with an added condition and in-place field/value transformations; plus arrangements of verbatim copies of one rule"
        "; correlation rules over a failing referenced rule (in every order, collecting and not)")
ASSUMPTIONS = [
    "a backend that lacks a feature raises NotImplementedError, which pySigma deliberately does not collect: failure stages are the four the property names, all Sigma errors",
    "correlation rules are C09/C10's subject; here collections contain detection rules only",
]
KINDS = ["ok1", "ok2", "pipefail", "placeholder", "badvalue", "missingdet", "oknot", "notplaceholder"]


def rule_doc(kind, i):
    base = {"title": f"{kind}_{i}", "logsource": {"category": "fail" if kind == "pipefail" else "c", "product": "p"}}
    if kind == "ok1":
        base["detection"] = {"sel": {"fieldA": f"v{i}", "g": [1, 2]}, "condition": "sel"}
    elif kind == "ok2":
        base["detection"] = {"sel": {"fieldA": f"v{i}"}, "flt": {"h": "x*"}, "condition": ["sel and not flt", "sel or flt"]}
    elif kind == "pipefail":
        base["detection"] = {"sel": {"fieldA": f"v{i}"}, "condition": "sel"}
    elif kind == "placeholder":
        base["detection"] = {"sel": {"fieldA|expand": f"%nope{i}%"}, "condition": "sel"}
    elif kind == "badvalue":
        base["detection"] = {"sel": {"fieldA": f"v{i}"}, "kw": [True], "condition": "sel and kw"}
    elif kind == "oknot":
        base["detection"] = {"sel": {"fieldA": f"v{i}"}, "flt": {"fieldB|startswith": "begin", "fieldA": f"w{i}"}, "condition": "sel and not flt"}
    elif kind == "notplaceholder":      # fails below a NOT, after the pipeline was applied
        base["detection"] = {"sel": {"fieldA": f"v{i}"}, "flt": {"fieldB|expand": f"%nope{i}%"}, "condition": "sel and not flt"}
    elif kind == "missingdet":
        base["detection"] = {"sel": {"fieldA": f"v{i}"}, "condition": "sel and nosuchdetection"}
    return base


PIPE = {"name": "p", "priority": 10, "transformations": [
    {"id": "map", "type": "field_name_mapping", "mapping": {"fieldA": "mappedA"}},
    {"id": "boom", "type": "rule_failure", "message": "not supported", "rule_conditions": [{"type": "logsource", "category": "fail"}]},
]}
PIPE_NOFAIL = {"name": "p", "priority": 10, "transformations": [PIPE["transformations"][0]]}
# a static added condition followed by in-place field and value transformations, and a conditional state
PIPE_ADD = {"name": "p", "priority": 10, "transformations": [
    {"id": "add", "type": "add_condition", "conditions": {"source": "eventlog", "n": [1, 2]}},
    {"id": "pre", "type": "field_name_prefix", "prefix": "win."},
    {"id": "suf", "type": "field_name_suffix", "suffix": ".keyword", "field_name_conditions": [{"type": "include_fields", "fields": ["win.source"]}]},
    {"id": "rep", "type": "replace_string", "regex": "^", "replacement": "x"},
    PIPE["transformations"][1],
]}
PIPES = {False: PIPE_NOFAIL, True: PIPE, "add": PIPE_ADD}
# backend variants: class attributes of a fresh TextQueryTestBackend subclass
BACKENDS = {"std": {}, "noteq": {"convert_not_as_not_eq": True, "not_eq_token": "!="},
            "noin": {"convert_or_as_in": False, "convert_and_as_in": False}}


def gen_cases(tier, seed, gen, effort):
    import itertools
    rnd = random.Random(seed * 811 + 8)
    thorough = tier == "thorough"
    arrs = []
    for n in (1, 2, 3):
        arrs += list(itertools.product(KINDS, repeat=n))
    for _ in range((300 if not thorough else 5000) * effort):
        arrs.append(tuple(rnd.choice(KINDS) for _ in range(rnd.randint(4, 6))))
    cases = []
    for a in arrs:
        for pipe in (True, False, "add"):
            if pipe is not True and (len(a) > 2 and rnd.random() < 0.6):
                continue
            for collect in (True, False):
                be = "std" if rnd.random() < 0.5 else rnd.choice(["noteq", "noin"])
                cases.append({"kinds": list(a), "pipe": pipe, "collect": collect, "backend": be})
    # correlation rules whose referenced rule fails: they cannot be converted either and get exactly one record; the rest is untouched
    for order in ([0, 1, 2, 3], [2, 3, 0, 1], [1, 3, 0, 2], [3, 2, 1, 0]):
        for failkind in ("placeholder", "badvalue", "missingdet", "pipefail"):
            for collect in (True, False):
                cases.append({"corrfail": failkind, "order": order, "collect": collect, "kinds": ["corrfail"], "pipe": True, "backend": "std"})
    # verbatim copies of a rule (equal objects): every copy still contributes its own queries / its own error record
    for a in arrs[: (400 if not thorough else 4000)]:
        if len(a) >= 2 and len(set(a)) < len(a):
            cases.append({"kinds": list(a), "pipe": True, "collect": True, "backend": "std", "same": True})
    return cases, False


def mk_backend(pipe, collect, be="std"):
    from sigma.backends.test import TextQueryTestBackend
    from sigma.processing.pipeline import ProcessingPipeline
    pl = ProcessingPipeline.from_dict(copy.deepcopy(PIPES[pipe]))
    cls = type("B_" + be, (TextQueryTestBackend,), dict(BACKENDS[be]))       # a fresh class per backend: no shared class state
    return cls(pl, collect_errors=collect)


def corrfail_docs(case):
    bad = dict(rule_doc(case["corrfail"], 0), name="bad_rule")
    good = dict(rule_doc("ok1", 1), name="good_rule")
    corr = lambda t, ref: {"title": t, "correlation": {"type": "event_count", "rules": [ref], "group-by": ["fieldA"], "timespan": "5m", "condition": {"gte": 2}}}
    return [bad, good, corr("corr_on_bad", "bad_rule"), corr("corr_on_good", "good_rule")]


def run_corrfail(case):
    from sigma.collection import SigmaCollection
    docs = corrfail_docs(case)
    out = {"outcome": "ok"}
    try:       # what the good pair converts to without the failing pair around
        out["want"] = mk_backend(True, False).convert(SigmaCollection.from_dicts(copy.deepcopy([docs[1], docs[3]])))
        b = mk_backend(True, case["collect"])
        try:
            out["output"] = b.convert(SigmaCollection.from_dicts(copy.deepcopy([docs[i] for i in case["order"]])))
            out["errors"] = [[r.title, outcome_of_exception(e)] for r, e in b.errors]
        except Exception as e:
            out["raised"] = outcome_of_exception(e)
    except Exception as e:
        return {"outcome": "harness:" + outcome_of_exception(e), "msg": str(e)[:200]}
    return out


def run_impl(case):
    from sigma.collection import SigmaCollection
    if case.get("corrfail"):
        return run_corrfail(case)
    docs = [rule_doc(k, 0 if case.get("same") else i) for i, k in enumerate(case["kinds"])]     # "same": verbatim copies of a rule
    solo = []
    for d in docs:
        try:
            b = mk_backend(case["pipe"], False, case.get("backend", "std"))
            solo.append({"ok": b.convert(SigmaCollection.from_dicts([copy.deepcopy(d)]))})
        except Exception as e:
            solo.append({"err": outcome_of_exception(e)})
    try:
        b = mk_backend(case["pipe"], case["collect"], case.get("backend", "std"))
        coll = SigmaCollection.from_dicts(copy.deepcopy(docs))
        out = b.convert(coll)
        return {"outcome": "ok", "output": out, "errors": [[r.title, outcome_of_exception(e)] for r, e in b.errors], "solo": solo}
    except Exception as e:
        return {"outcome": outcome_of_exception(e), "msg": str(e)[:120], "solo": solo}


def make_request(case, impl, gen):
    if case.get("corrfail"):
        return {"op": "ping"}
    qid, eid = {}, {}
    rules = []
    for i, s in enumerate(impl["solo"]):
        if "ok" in s:
            res = {"ok": [qid.setdefault(q, len(qid)) for q in s["ok"]]}
        else:
            res = {"err": eid.setdefault(s["err"], len(eid))}
        rules.append({"id": i, "refs": [], "output": True, "result": res})
    return {"op": "coll.convert", "collect": case["collect"], "rules": rules, "_q": None}


def judge_corrfail(case, impl):
    key = ("corrfail", case["corrfail"], tuple(case["order"]), case["collect"])
    tags = ("kind:corrfail", f"collect:{case['collect']}", f"impl:{impl['outcome'].split(':')[0]}")
    if impl["outcome"] != "ok":
        return Verdict("drift", f"harness could not convert the good pair: {impl.get('msg')}", True, key, tags=tags)
    titles = [corrfail_docs(case)[i]["title"] for i in case["order"]]
    if case["collect"]:
        if "raised" in impl:
            return Verdict("violation", f"error collection is on but convert raised {impl['raised']} for the collection {titles} (a correlation rule refers to a rule that fails: {case['corrfail']})", True, key, tags=tags)
        if impl["output"] != impl["want"]:
            return Verdict("violation", f"collection {titles}: emitted {impl['output']}, but only the correlation over the good rule can be converted: {impl['want']}", True, key, tags=tags)
        got = sorted(t for t, _ in impl["errors"])
        if got != sorted([f"{case['corrfail']}_0", "corr_on_bad"]):
            return Verdict("violation", f"collection {titles}: error records for {got}; exactly the failing rule and the correlation rule that refers to it cannot be converted", True, key, tags=tags)
    else:
        if "raised" not in impl or not impl["raised"].startswith("sigma:"):
            return Verdict("violation", f"collection {titles} without error collection: a Sigma error must be raised, got {impl.get('raised') or impl.get('output')}", True, key, tags=tags)
    return Verdict("ok", "", True, key, tags=tags)


def judge(case, impl, reply):
    if case.get("corrfail"):
        return judge_corrfail(case, impl)
    io = impl["outcome"]
    solo = impl["solo"]
    kinds = case["kinds"]
    key = (kinds, case["pipe"], case["collect"], case.get("backend", "std"), case.get("same"))
    fails = [i for i, s in enumerate(solo) if "err" in s]
    nt = 0 < len(fails) < len(kinds)
    tags = (f"n:{len(kinds)}", f"fails:{min(len(fails), 3)}", f"collect:{case['collect']}", f"pipe:{case['pipe']}", f"backend:{case.get('backend', 'std')}", f"impl:{io.split(':')[0]}")
    for i, s in enumerate(solo):
        if "err" in s and s["err"].startswith("other:"):
            return Verdict("violation", f"rule {kinds[i]} alone raises non-Sigma {s['err']}", nt, key, tags=tags)
    want_out = [q for s in solo if "ok" in s for q in s["ok"]]
    want_err = [[f"{kinds[i]}_{0 if case.get('same') else i}", solo[i]["err"]] for i in fails]
    if case["collect"]:
        if io != "ok":
            return Verdict("violation", f"error collection is on but convert raised {io}: {impl.get('msg')} for {kinds}", nt, key, tags=tags)
        if impl["output"] != want_out:
            return Verdict("violation", f"collection {kinds} (pipeline={case['pipe']}, backend={case.get('backend', 'std')}): emitted {impl['output']} but the rules converted alone give {want_out}", nt, key, tags=tags)
        if impl["errors"] != want_err:
            return Verdict("violation", f"collection {kinds}: error records {impl['errors']} but failing rules are {want_err}", nt, key, tags=tags)
    else:
        if fails:
            if io != solo[fails[0]]["err"]:
                return Verdict("violation", f"collection {kinds} without error collection: expected the first failing rule's error {solo[fails[0]]['err']} to be raised, got {io}", nt, key, tags=tags)
        else:
            if io != "ok" or impl["output"] != want_out:
                return Verdict("violation", f"collection {kinds}: {io} / {impl.get('output')} but the rules converted alone give {want_out}", nt, key, tags=tags)
    # model drift: convertAll
    if reply["outcome"] == "ok":
        if io != "ok" or len(reply["queries"]) != len(impl["output"]) or len(reply["errors"]) != len(impl["errors"]):
            return Verdict("drift", f"model ok({len(reply['queries'])} queries, {len(reply['errors'])} errors) vs impl {io}", nt, key, tags=tags)
    else:
        if io == "ok":
            return Verdict("drift", f"model raised at rule {reply['rule']} vs impl ok", nt, key, tags=tags)
    return Verdict("ok", "", nt, key, tags=tags)
