"""C13 — a pipeline item acts exactly where its conditions hold.

A probe item (add_fieldname_suffix '_X') with randomly drawn rule / detection-item / field-name condition
groups (0..2 conditions of every built-in type, linking and/or/expression, negation flags) runs after
pre-items that set state, rename a field and change the log source.  Observable: which detection items
carry the suffix after `ProcessingPipeline.apply(rule)`.  Expected: each condition's truth value is computed
by an independent evaluator from the rule document and the documented effect of the pre-items; the Lean
model (`Gate`) combines them by linking / negation / expression and decides where the item must act."""
from __future__ import annotations
import copy, random, re
from .common import Verdict, cps, outcome_of_exception

ID = "C13"
GEN = ["PipeCond"]
RULE = ("probe item with three condition groups x {0,1,2 conditions} drawn from every built-in condition type (logsource, "
        "contains_field, contains_detection_item, processing_item_applied, processing_state, is_sigma_rule, rule_attribute, tag; "
        "match_string, match_value, contains_wildcard, is_null, processing_item_applied, processing_state; include_fields, "
        "exclude_fields (plain/re), processing_state) x linking {and, or, expression of size <= 5} x negation flags, list- or "
        "map-form; preceded by items that set state, rename a field, change the log source (each optionally conditioned); "
        "distinct = distinct pipeline; non-trivial = at least one condition group with >= 1 condition")
ASSUMPTIONS = [
    "individual condition semantics are re-implemented from their documentation in this harness (spec evaluator); Lean decides only their combination",
    "field-name 'processing_item_applied' conditions are not generated (their bookkeeping depends on the rule's fields list)",
    "Python re decides regular-expression matches of match_string / include_fields(re)",
]

RULEDOC = {"title": "t", "level": "high", "tags": ["attack.t1234"], "logsource": {"category": "cat", "product": "prod"},
           "detection": {"sel": {"fieldA": "valueA", "fieldB": ["x*", "y"], "fieldC": None, "fieldD": [1, "x1"]},
                         "flt": [{"fieldA": "other"}, {"fieldE": "*w*"}], "condition": "sel and not flt"}}
ITEMS = [("sel", "fieldA", ["valueA"]), ("sel", "fieldB", ["x*", "y"]), ("sel", "fieldC", [None]), ("sel", "fieldD", [1, "x1"]),
         ("flt", "fieldA", ["other"]), ("flt", "fieldE", ["*w*"])]

# the drop probe runs on a rule that also has field references: a field-name condition holds on a detection item when it
# holds for the item's field OR for a field referenced in its values (FieldNameProcessingCondition.match_detection_item)
RULEDOC_REF = copy.deepcopy(RULEDOC)
RULEDOC_REF["detection"]["sel"]["fieldF|fieldref"] = "fieldA"
RULEDOC_REF["detection"]["sel"]["fieldG|fieldref"] = "fieldZ"
ITEMS_REF = ITEMS[:4] + [("sel", "fieldF", []), ("sel", "fieldG", [])] + ITEMS[4:]
REFS = {"fieldF": ["fieldA"], "fieldG": ["fieldZ"]}
# a rule converted BEFORE the probed one with the same pipeline object: nothing of it may remain visible
PRIOR_DOC = {"title": "prior", "level": "low", "tags": [], "logsource": {"category": "zzz", "product": "other"},
             "detection": {"s": {"fieldB": "q", "fieldQ": 2}, "condition": "s"}}

RULE_CONDS = [
    {"type": "logsource", "category": "cat"}, {"type": "logsource", "category": "newcat"}, {"type": "logsource", "product": "prod", "service": "svc"},
    {"type": "contains_field", "field": "fieldB"}, {"type": "contains_field", "field": "mappedB"}, {"type": "contains_field", "field": "nope"},
    {"type": "contains_detection_item", "field": "fieldA", "value": "valueA"}, {"type": "contains_detection_item", "field": "fieldD", "value": 1},
    {"type": "contains_detection_item", "field": "fieldA", "value": "nope"},
    {"type": "processing_item_applied", "processing_item_id": "state"}, {"type": "processing_item_applied", "processing_item_id": "map"},
    {"type": "processing_item_applied", "processing_item_id": "nothere"},
    {"type": "processing_state", "key": "k", "val": "v"}, {"type": "processing_state", "key": "k", "val": "w", "op": "ne"},
    {"type": "processing_state", "key": "n", "val": 5, "op": "gte"},
    {"type": "is_sigma_rule"}, {"type": "is_sigma_correlation_rule"},
    {"type": "rule_attribute", "attribute": "level", "value": "medium", "op": "gte"}, {"type": "rule_attribute", "attribute": "title", "value": "t"},
    {"type": "tag", "tag": "attack.t1234"}, {"type": "tag", "tag": "attack.t9999"},
]
DET_CONDS = [
    {"type": "match_string", "cond": "any", "pattern": "^x"}, {"type": "match_string", "cond": "all", "pattern": "^x"},
    {"type": "match_string", "cond": "any", "pattern": "^x", "negate": True}, {"type": "match_string", "cond": "all", "pattern": "a"},
    {"type": "match_value", "cond": "any", "value": "valueA"}, {"type": "match_value", "cond": "any", "value": 1},
    {"type": "contains_wildcard", "cond": "any"}, {"type": "contains_wildcard", "cond": "all"},
    {"type": "is_null", "cond": "all"}, {"type": "is_null", "cond": "any"},
    {"type": "processing_item_applied", "processing_item_id": "map"}, {"type": "processing_item_applied", "processing_item_id": "nothere"},
    {"type": "processing_state", "key": "k", "val": "v"},
]
FIELD_CONDS = [
    {"type": "include_fields", "fields": ["fieldA", "mappedB"]}, {"type": "exclude_fields", "fields": ["fieldA"]},
    {"type": "include_fields", "fields": ["field[AC]$", "^mapped"], "mode": "re"}, {"type": "exclude_fields", "fields": ["^field[BD]"], "mode": "re"},
    {"type": "include_fields", "fields": ["fieldB"]}, {"type": "processing_state", "key": "k", "val": "v"},
]


def rand_expr(rnd, ids, depth=2):
    if depth == 0 or rnd.random() < 0.3:
        return rnd.choice(ids)
    r = rnd.random()
    if r < 0.25:
        return "not " + rand_expr(rnd, ids, depth - 1)
    op = rnd.choice(["and", "or"])
    a, b = rand_expr(rnd, ids, depth - 1), rand_expr(rnd, ids, depth - 1)
    return f"({a} {op} {b})" if rnd.random() < 0.7 else f"{a} {op} {b}"


def gen_group(rnd, pool):
    n = rnd.choice([0, 0, 1, 1, 2, 2])
    conds = [copy.deepcopy(rnd.choice(pool)) for _ in range(n)]
    g = {"conds": conds, "neg": rnd.random() < 0.35, "link": rnd.choice(["and", "or", None])}
    if n >= 1 and rnd.random() < 0.35:
        ids = [rnd.choice(["c", "notlinux", "and_x", "a-1", "or2"]) + str(i) for i in range(n)]
        expr = rand_expr(rnd, ids)
        # every identifier must be referenced
        for i in ids:
            if not re.search(r"(?<![\w-])" + re.escape(i) + r"(?![\w-])", expr):
                expr = f"{expr} or {i}"
        g["expr"] = expr
        g["ids"] = ids
        g["link"] = None
    return g


def gen_cases(tier, seed, gen, effort):
    rnd = random.Random(seed * 1301 + 13)
    thorough = tier == "thorough"
    cases = []
    for _ in range((2500 if not thorough else 40000) * effort):
        pre = {"state": rnd.random() < 0.7, "state_cond": rnd.choice([None, {"type": "logsource", "category": "cat"}, {"type": "logsource", "category": "zzz"}]),
               "map": rnd.random() < 0.7, "logsrc": rnd.random() < 0.4, "n5": rnd.random() < 0.3}
        c = {"pre": pre, "rule": gen_group(rnd, RULE_CONDS), "det": gen_group(rnd, DET_CONDS), "field": gen_group(rnd, FIELD_CONDS)}
        r = rnd.random()
        if r < 0.25:
            c["prior"] = True                      # the pipeline object converted another rule first
        elif r < 0.45:
            c["probe"] = "drop"                    # item-level marker on a rule with field references
            c["det"] = {"conds": [], "neg": False, "link": None}
            c["prior"] = rnd.random() < 0.3
        cases.append(c)
    return cases, False


def group_yaml(prefix, g, d):
    if "expr" in g:
        d[f"{prefix}_conditions"] = {i: c for i, c in zip(g["ids"], g["conds"])}
        d[f"{prefix}_cond_expr"] = g["expr"]
    else:
        d[f"{prefix}_conditions"] = g["conds"]
        if g["link"] is not None:
            d[f"{prefix}_cond_op"] = g["link"]
    if g["neg"]:
        d[f"{prefix}_cond_not"] = True


def pipeline_dict(case):
    ts = []
    pre = case["pre"]
    if pre["state"]:
        t = {"id": "state", "type": "set_state", "key": "k", "val": "v"}
        if pre["state_cond"]:
            t["rule_conditions"] = [pre["state_cond"]]
        ts.append(t)
    if pre["n5"]:
        ts.append({"id": "n5", "type": "set_state", "key": "n", "val": 5})
    if pre["map"]:
        ts.append({"id": "map", "type": "field_name_mapping", "mapping": {"fieldB": "mappedB"}})
    if pre["logsrc"]:
        ts.append({"id": "ls", "type": "change_logsource", "category": "newcat"})
    probe = {"id": "probe", "type": "field_name_suffix", "suffix": "_X"} if case.get("probe") != "drop" else {"id": "probe", "type": "drop_detection_item"}
    group_yaml("rule", case["rule"], probe)
    group_yaml("detection_item", case["det"], probe)
    group_yaml("field_name", case["field"], probe)
    ts.append(probe)
    return {"name": "p", "priority": 1, "transformations": ts}


def run_impl(case):
    from sigma.rule import SigmaRule
    from sigma.processing.pipeline import ProcessingPipeline
    from sigma.rule.detection import SigmaDetection
    try:
        pl = ProcessingPipeline.from_dict(pipeline_dict(case))
    except Exception as e:
        return {"outcome": outcome_of_exception(e), "stage": "load", "msg": str(e)[:160]}
    try:
        if case.get("prior"):
            pl.apply(SigmaRule.from_dict(copy.deepcopy(PRIOR_DOC)))
        rule = SigmaRule.from_dict(copy.deepcopy(RULEDOC_REF if case.get("probe") == "drop" else RULEDOC))
        pl.apply(rule)
        out = []

        def walk(d):
            for it in d.detection_items:
                if isinstance(it, SigmaDetection):
                    walk(it)
                else:
                    out.append(it.field)
        walk(rule.detection.detections["sel"])
        nsel = len(out)
        walk(rule.detection.detections["flt"])
        return {"outcome": "ok", "fields": out, "sel": out[:nsel], "flt": out[nsel:], "applied": sorted(pl.applied_ids)}
    except Exception as e:
        return {"outcome": outcome_of_exception(e), "stage": "apply", "msg": str(e)[:160]}


# ------------------------------------------------------------------ specification evaluator (documented meaning)
def world(case):
    """state of the rule when the probe runs, from the documented effect of the pre-items"""
    pre = case["pre"]
    w = {"state": {}, "applied": set(), "category": "cat", "product": "prod", "service": None,
         "items": [{"det": d, "field": f, "values": v, "by": set(), "refs": list(REFS.get(f, []))}
                   for d, f, v in (ITEMS_REF if case.get("probe") == "drop" else ITEMS)]}
    if pre["state"]:
        c = pre["state_cond"]
        if c is None or c.get("category") == "cat":
            w["state"]["k"] = "v"; w["applied"].add("state")
    if pre["n5"]:
        w["state"]["n"] = 5; w["applied"].add("n5")
    if pre["map"]:
        w["applied"].add("map")
        for it in w["items"]:
            if it["field"] == "fieldB":
                it["field"] = "mappedB"; it["by"].add("map")
    if pre["logsrc"]:
        w["applied"].add("ls"); w["category"] = "newcat"; w["product"] = None; w["service"] = None
    return w


def state_cond(w, c):
    if c["key"] not in w["state"]:
        return False
    sv, v, op = w["state"][c["key"]], c["val"], c.get("op", "eq")
    return {"eq": sv == v, "ne": sv != v, "gte": (sv >= v) if type(sv) == type(v) else False, "gt": False, "lte": False, "lt": False}[op]


def rule_cond(w, c):
    t = c["type"]
    if t == "logsource":
        return all(c.get(k) is None or c.get(k) == w[k] for k in ("category", "product", "service"))
    if t == "contains_field":
        return any(it["field"] == c["field"] for it in w["items"])
    if t == "contains_detection_item":
        return any(it["field"] == c["field"] and any(type(v) == type(c["value"]) and v == c["value"] for v in it["values"]) for it in w["items"])
    if t == "processing_item_applied":
        return c["processing_item_id"] in w["applied"]
    if t == "processing_state":
        return state_cond(w, c)
    if t == "is_sigma_rule":
        return True
    if t == "is_sigma_correlation_rule":
        return False
    if t == "rule_attribute":
        if c["attribute"] == "level":
            order = ["informational", "low", "medium", "high", "critical"]
            return order.index("high") >= order.index(c["value"])
        return c["value"] == "t"
    if t == "tag":
        return c["tag"] == "attack.t1234"
    raise KeyError(t)


def has_wild(v):
    return isinstance(v, str) and bool(re.search(r"(?<!\\)[*?]", v))


def det_cond(w, it, c):
    t = c["type"]
    f = any if c.get("cond") == "any" else all
    if t == "match_string":
        def m(v):
            r = isinstance(v, str) and re.match(c["pattern"], v) is not None
            return (not r) if c.get("negate") else r
        return f(m(v) for v in it["values"])
    if t == "match_value":
        return f((v is not None and type(v) == type(c["value"]) and v == c["value"]) for v in it["values"])
    if t == "contains_wildcard":
        return f(has_wild(v) for v in it["values"])
    if t == "is_null":
        return f(v is None for v in it["values"])
    if t == "processing_item_applied":
        return c["processing_item_id"] in it["by"]
    if t == "processing_state":
        return state_cond(w, c)
    raise KeyError(t)


def field_cond(w, it, c):
    t = c["type"]
    if t in ("include_fields", "exclude_fields"):
        def on(name):
            if c.get("mode") == "re":
                r = any(re.match(p, name) for p in c["fields"])
            else:
                r = name in c["fields"]
            return r if t == "include_fields" else not r
        return on(it["field"]) or any(on(x) for x in it.get("refs", []))
    if t == "processing_state":
        return state_cond(w, c)
    raise KeyError(t)


def group_json(g):
    if "expr" in g:
        link = {"expr": cps(g["expr"]), "ids": [cps(i) for i in g["ids"]]}
    else:
        link = "any" if g["link"] == "or" else "all"
    return {"n": len(g["conds"]), "neg": g["neg"], "link": link}


def make_request(case, impl, gen):
    w = world(case)
    r = {"op": "gate.eval", "rule": group_json(case["rule"]), "det": group_json(case["det"]), "field": group_json(case["field"]),
         "rr": [rule_cond(w, c) for c in case["rule"]["conds"]],
         "targets": [{"dr": [det_cond(w, it, c) for c in case["det"]["conds"]], "fr": [field_cond(w, it, c) for c in case["field"]["conds"]]}
                     for it in w["items"]]}
    g = gen.get("PipeCond")
    if g:
        r["grammar"] = {k: (cps(v) if isinstance(v, str) else [cps(x) for x in v] if isinstance(v, list) else v) for k, v in g.items()}
    return r


def judge(case, impl, reply):
    io = impl["outcome"]
    key = (case["pre"], case["rule"], case["det"], case["field"], case.get("probe"), case.get("prior"))
    nconds = sum(len(case[k]["conds"]) for k in ("rule", "det", "field"))
    nt = nconds >= 1
    tags = [f"impl:{io.split(':')[0]}", f"conds:{nconds}", f"probe:{case.get('probe', 'suffix')}", f"prior:{bool(case.get('prior'))}"] + [f"{k}:{'expr' if 'expr' in case[k] else case[k]['link']}/{len(case[k]['conds'])}/{'neg' if case[k]['neg'] else 'pos'}" for k in ("rule", "det", "field")]
    if io.startswith("other:"):
        return Verdict("violation", f"{io} at {impl.get('stage')}: {impl.get('msg')} for pipeline {pipeline_dict(case)}", nt, key, tags=tuple(tags))
    if reply.get("exprError"):
        if io.startswith("sigma:"):
            return Verdict("ok", "", nt, key, tags=tuple(tags + ["expr-rejected"]))
        return Verdict("drift", f"model cannot read an expression the implementation accepts: {[case[k].get('expr') for k in ('rule','det','field')]}", nt, key, tags=tuple(tags))
    if io.startswith("sigma:"):
        return Verdict("violation", f"valid pipeline rejected at {impl.get('stage')}: {io} {impl.get('msg')} :: {pipeline_dict(case)['transformations'][-1]}", nt, key, tags=tuple(tags))
    w = world(case)
    if case.get("probe") == "drop":
        got = [it["field"] not in impl[it["det"]] for it in w["items"]]
    else:
        got = [f.endswith("_X") for f in impl["fields"]]
    want = reply["onDet"]
    if got != want:
        i = next(k for k, (a, b) in enumerate(zip(got, want)) if a != b)
        it = w["items"][i]
        return Verdict("violation", (f"probe {pipeline_dict(case)['transformations'][-1]} {'acted on' if got[i] else 'did not act on'} detection item "
                                     f"{it['det']}.{it['field']} = {it['values']} although its conditions evaluate to {want[i]} there "
                                     f"(pre-items: {case['pre']}{'; the pipeline object converted another rule (log source category zzz) first' if case.get('prior') else ''})"),
                       nt, key, tags=tuple(tags))
    if ("probe" in impl["applied"]) != reply["onRule"]:
        return Verdict("violation", f"probe recorded as applied={'probe' in impl['applied']} but its rule conditions evaluate to {reply['onRule']}: {pipeline_dict(case)['transformations'][-1]}", nt, key, tags=tuple(tags))
    return Verdict("ok", "", nt, key, tags=tuple(tags))
