"""C13 — a pipeline item acts exactly where its conditions hold.

A probe item (add_fieldname_suffix '_X', or drop_detection_item) with randomly drawn rule / detection-item /
field-name condition groups (0..2 conditions of every registered condition type, linking and/or/expression,
negation flags) runs after pre-items that set state, rename a field and change the log source.  Observable: which
detection items carry the suffix / disappeared after `ProcessingPipeline.apply(rule)`, whether the probe is recorded
as applied, and the field names of all items afterwards.  A keyword stream runs the probes on a rule that also has
detection items WITHOUT a field name (keyword lists, single keywords, keywords next to field maps): include_fields
never holds there, exclude_fields always, and a state condition as everywhere else.  A value stream runs the probes on
a rule whose value lists mix strings, numbers and booleans in every order, whose strings contain ESCAPED asterisks / question
marks / backslashes (literal characters, not wildcards) next to real wildcards, and whose field references come singly and
as a list; the fields REFERENCED in the values after the pipeline are part of the observation in every stream (a field-name
transformation renames a referenced field iff the field-name conditions hold for that name).

Expected: the Lean specification `Spec/PipeConds.lean` (documented meaning of every condition, documented effect of
the pre-items on what later conditions see) evaluated by the driver op `gate.case` on the ORIGINAL rule document and
the pipeline description; theorems in `Props/C13.lean` (`probe_acts_iff`, `spec_flags_eq_gate_run`, …) tie it to the
gate model.  The harness contributes the reading of the rule document (fields, values, attributes) and the
regular-expression match tables (Python `re.match`).

A second, independent evaluator of the individual conditions in Python (`world`, `rule_cond`, `det_cond`,
`field_cond_item`, `field_cond_name`) is compared leaf by leaf with Lean; a disagreement is reported as drift.

Documentation vs code (the specification follows the documentation). D70-D72 were genuine defects found by this check and are
repaired in /repo (767df1a, 957b624): they are no longer listed in known_findings.json, so a recurrence is a VIOLATION; the
classifiers below only attribute it:
  * D70  rule_attribute on an attribute holding an int answers True under every relation;
  * D71  rule_attribute with op in/not_in on a non-list attribute raises KeyError, not SigmaConfigurationError;
  * D72  a field-name transformation records a detection item as processed when a field reference in it satisfied the
         field-name conditions, even if the transformation has no new name for the referenced field;
  * processing_state ordering a string against a number raises TypeError (undocumented; not generated);
  * match_value: the number 1 equals the parameter true in the code (SigmaNumber.__eq__ accepts bool); not generated;
  * track_field_processing_items forgets the source name (documentation: keeps it); not observable here;
  * FieldNameProcessingItemAppliedCondition on a detection item reads the item's set (documentation silent)."""
from __future__ import annotations
import copy, random, re
from decimal import Decimal
from .common import Verdict, cps, outcome_of_exception

ID = "C13"
GEN = ["PipeCond", "PipeCondKinds"]
RULE = ("probe item with three condition groups x {0,1,2 conditions} drawn from every registered condition type (logsource, "
        "contains_field, contains_detection_item, processing_item_applied, processing_state (6 relations, string/number), "
        "is_sigma_rule, is_sigma_correlation_rule, rule_attribute (string, number, date, level, status, list; valid and "
        "invalid relations), tag; match_string (any/all, negate), match_value, contains_wildcard, is_null, "
        "processing_item_applied, processing_state; include_fields, exclude_fields (plain/re), processing_item_applied, "
        "processing_state) x linking {and, or, expression of size <= 5} x negation flags, list- or map-form; preceded by items "
        "that set state, rename a field (also in a field reference), change the log source (each optionally conditioned); "
        "suffix probe on a rule without / with field references, drop probe on a rule with field references, optionally "
        "after the same pipeline object converted another rule; distinct = distinct pipeline; non-trivial = at least one "
        "condition group with >= 1 condition"
        "; optionally after the same pipeline object converted another rule, with a nested pipeline that reads and overrides state, and with a drop probe on a rule with field references"
        "; keyword stream: drop / suffix probe with all three groups on a rule that also has keyword detection items (no field name: "
        "a list of keywords, a single keyword, keywords mixed with field maps)"
        "; value stream: suffix / drop probe on a rule with value lists of mixed kinds (string / number / boolean in every order; "
        "contains_detection_item and match_value looking for a value listed AFTER values of other kinds), strings with escaped "
        "'*' / '?' / backslash next to real wildcards (contains_wildcard, match_value, match_string on the plain text), field "
        "references singly and as a list; observable in all streams: the referenced field names after the pipeline")
ASSUMPTIONS = [
    "trusted Python: reading of the rule document into the specification's World (flat detection items, value kinds, attribute types) and the pipeline description",
    "regular-expression matching (match_string, include_fields/exclude_fields in re mode) is a parameter of the Lean specification: a table computed by Python re.match per request; the driver refuses a request whose table lacks an entry it needs",
    "all registered condition identifiers are generated (obligation gen_every_condition_kind_classified); on correlation rules only the rule-level gate is observed, with unresolved rule references (logsource on a correlation rule with resolved references is not generated)",
    "processing_state: ordering a string against a number is not generated (undocumented; the code raises TypeError)",
    "rule_attribute: numeric strings are [+-]?digits, dates YYYY-MM-DD; attributes holding None/objects count as unsupported",
    "match_value with a boolean parameter is not generated against items holding the numbers 0/1",
    "1:1 field_name_mapping only; the rule's fields list is not generated; keyword items (field None) in the keyword stream only",
    "strings in the rule document: a backslash escapes '*', '?' and itself and is a plain character elsewhere (Sigma specification); the plain text that match_string sees writes a literal '*' / '?' as '\\*' / '\\?' (SigmaString.to_plain, Model.SStr.toPlain)",
    "conditions of an item are evaluated on the world left by the EARLIER items; the code's own tracking moves while the probe runs are not observable on the generated documents",
]

RULEDOC = {"title": "t", "level": "high", "status": "test", "date": "2024-01-05", "tags": ["attack.t1234"], "references": ["r1", "r2"],
           "score": 5, "ratio": 2.5, "logsource": {"category": "cat", "product": "prod"},
           "detection": {"sel": {"fieldA": "valueA", "fieldB": ["x*", "y"], "fieldC": None, "fieldD": [1, "x1"], "fieldH": [True, 2]},
                         "flt": [{"fieldA": "other"}, {"fieldE": "*w*"}], "condition": "sel and not flt"}}
# the drop probe (and part of the suffix probes) runs on a rule that also has field references: a field-name condition
# holds on a detection item when it holds for the item's field OR for a field referenced in its values
RULEDOC_REF = copy.deepcopy(RULEDOC)
RULEDOC_REF["detection"]["sel"]["fieldF|fieldref"] = "fieldA"
RULEDOC_REF["detection"]["sel"]["fieldG|fieldref"] = "fieldB"
# a rule that also has keyword detection items (no field name): a list of keywords is ONE item with several values, a keyword
# next to field maps and a single keyword are items of their own.  A field-name condition sees "no name" there.
RULEDOC_KW = copy.deepcopy(RULEDOC)
RULEDOC_KW["detection"].update({"kw": ["plain", "x*", 1], "mix": [{"fieldA": "zz"}, "valueA"], "one": "y",
                                "condition": "sel and not flt or kw or mix or one"})
# a rule whose value lists mix kinds in every order, whose strings contain escaped special characters, and with a LIST of references.
# In the document text a backslash escapes '*', '?' and itself; elsewhere it is a plain character.
RULEDOC_VAL = copy.deepcopy(RULEDOC_REF)
RULEDOC_VAL["detection"]["sel"].update({
    "fieldJ": ["a\\*b", "c\\?"],                    # a literal asterisk, a literal question mark: no wildcard at all
    "fieldK": ["q\\?*", "r?"],                       # every value has a wildcard (the first also a literal question mark)
    "fieldL": ["d\\\\*", "lit\\*"],                  # an escaped backslash followed by a wildcard; a literal asterisk
    "fieldM": "C:\\Win\\x\\?",                      # backslashes as plain characters, then a literal question mark
    "fieldN": [4624, "svc", True, "x*"],            # number, string, boolean, string
    "fieldP": ["svc", 7, False, "s\\*"],             # string, number, boolean, string with a literal asterisk
    "fieldR|fieldref": ["fieldJ", "fieldA"],        # two references in one item
})
# a rule converted BEFORE the probed one with the same pipeline object: nothing of it may remain visible
PRIOR_DOC = {"title": "prior", "level": "low", "status": "stable", "date": "2020-02-02", "tags": [], "references": ["zz"], "score": 9, "ratio": 0.5,
             "logsource": {"category": "zzz", "product": "other"},
             "detection": {"s": {"fieldB": "q", "fieldQ": 2}, "condition": "s"}}
# a correlation rule: only the rule-level gate is observable (no detection items)
CORR_DOC = {"title": "t", "level": "high", "status": "test", "date": "2024-01-05", "tags": ["attack.t1234"], "references": ["r1", "r2"], "score": 5, "ratio": 2.5,
            "correlation": {"type": "event_count", "rules": ["some_rule"], "group-by": ["fieldB"], "timespan": "5m", "condition": {"gte": 10}}}
INT_ATTRS = ("score",)         # attributes holding a Python int (D70)
LEVELS = ["informational", "low", "medium", "high", "critical"]
STATUSES = ["unsupported", "deprecated", "experimental", "test", "stable"]

RULE_CONDS = [
    {"type": "logsource", "category": "cat"}, {"type": "logsource", "category": "newcat"}, {"type": "logsource", "product": "prod", "service": "svc"},
    {"type": "logsource", "category": "cat", "product": "prod"}, {"type": "logsource", "product": "prod"},
    {"type": "contains_field", "field": "fieldB"}, {"type": "contains_field", "field": "mappedB"}, {"type": "contains_field", "field": "nope"},
    {"type": "contains_field", "field": "field"}, {"type": "contains_field", "field": "fieldE"}, {"type": "contains_detection_item", "field": "field", "value": "valueA"},
    {"type": "contains_detection_item", "field": "fieldA", "value": "value"}, {"type": "contains_detection_item", "field": "fieldA", "value": "other"},
    {"type": "contains_detection_item", "field": "fieldA", "value": "valueA"}, {"type": "contains_detection_item", "field": "fieldD", "value": 1},
    {"type": "contains_detection_item", "field": "fieldA", "value": "nope"}, {"type": "contains_detection_item", "field": "fieldD", "value": "1"},
    {"type": "contains_detection_item", "field": "fieldD", "value": 1.0}, {"type": "contains_detection_item", "field": "fieldH", "value": True},
    {"type": "contains_detection_item", "field": "fieldD", "value": True}, {"type": "contains_detection_item", "field": "mappedB", "value": "x*"},
    # the value looked for is listed AFTER values of other kinds / is written with escaped special characters
    {"type": "contains_detection_item", "field": "fieldD", "value": "x1"}, {"type": "contains_detection_item", "field": "fieldH", "value": 2},
    {"type": "contains_detection_item", "field": "fieldN", "value": "svc"}, {"type": "contains_detection_item", "field": "fieldN", "value": True},
    {"type": "contains_detection_item", "field": "fieldN", "value": "x*"}, {"type": "contains_detection_item", "field": "fieldP", "value": 7},
    {"type": "contains_detection_item", "field": "fieldP", "value": False}, {"type": "contains_detection_item", "field": "fieldP", "value": "s\\*"},
    {"type": "contains_detection_item", "field": "fieldP", "value": "s*"}, {"type": "contains_detection_item", "field": "fieldJ", "value": "c\\?"},
    {"type": "contains_detection_item", "field": "fieldJ", "value": "c?"}, {"type": "contains_detection_item", "field": "fieldN", "value": 7},
    {"type": "contains_detection_item", "field": "fieldL", "value": "d\\\\*"}, {"type": "contains_field", "field": "fieldN"},
    {"type": "processing_item_applied", "processing_item_id": "state"}, {"type": "processing_item_applied", "processing_item_id": "map"},
    {"type": "processing_item_applied", "processing_item_id": "nothere"}, {"type": "processing_item_applied", "processing_item_id": "ls"},
    {"type": "processing_state", "key": "k", "val": "v"}, {"type": "processing_state", "key": "k", "val": "w", "op": "ne"},
    {"type": "processing_state", "key": "n", "val": 5, "op": "gte"}, {"type": "processing_state", "key": "n", "val": 5, "op": "gt"},
    {"type": "processing_state", "key": "n", "val": 7, "op": "lt"}, {"type": "processing_state", "key": "n", "val": 5.0, "op": "eq"},
    {"type": "processing_state", "key": "n", "val": 4.5, "op": "lte"}, {"type": "processing_state", "key": "k", "val": "u", "op": "gt"},
    {"type": "processing_state", "key": "zz", "val": "v", "op": "ne"}, {"type": "processing_state", "key": "k", "val": "va", "op": "lte"},
    {"type": "processing_state", "key": "k", "val": "v", "op": "gte"}, {"type": "processing_state", "key": "k", "val": "v", "op": "lt"},
    {"type": "processing_state", "key": "n", "val": 5, "op": "lte"}, {"type": "processing_state", "key": "n", "val": 5, "op": "ne"},
    {"type": "processing_state", "key": "k", "val": 5}, {"type": "processing_state", "key": "n", "val": "5"}, {"type": "processing_state", "key": "n", "val": "5", "op": "ne"},
    {"type": "is_sigma_rule"}, {"type": "is_sigma_correlation_rule"},
    {"type": "rule_attribute", "attribute": "level", "value": "medium", "op": "gte"}, {"type": "rule_attribute", "attribute": "title", "value": "t"},
    {"type": "rule_attribute", "attribute": "level", "value": "HIGH", "op": "eq"}, {"type": "rule_attribute", "attribute": "level", "value": "critical", "op": "lt"},
    {"type": "rule_attribute", "attribute": "level", "value": "low", "op": "ne"}, {"type": "rule_attribute", "attribute": "level", "value": "high", "op": "gt"},
    {"type": "rule_attribute", "attribute": "level", "value": "high", "op": "gte"}, {"type": "rule_attribute", "attribute": "level", "value": "High", "op": "lte"},
    {"type": "rule_attribute", "attribute": "level", "value": "high", "op": "lt"}, {"type": "rule_attribute", "attribute": "status", "value": "test", "op": "gte"},
    {"type": "rule_attribute", "attribute": "status", "value": "test", "op": "gt"}, {"type": "rule_attribute", "attribute": "status", "value": "experimental", "op": "eq"},
    {"type": "rule_attribute", "attribute": "date", "value": "2024-01-05", "op": "gte"}, {"type": "rule_attribute", "attribute": "date", "value": "2024-01-05", "op": "ne"},
    {"type": "rule_attribute", "attribute": "ratio", "value": 2.5, "op": "gte"}, {"type": "rule_attribute", "attribute": "ratio", "value": 2.5, "op": "gt"},
    {"type": "rule_attribute", "attribute": "status", "value": "test", "op": "lte"}, {"type": "rule_attribute", "attribute": "status", "value": "stable", "op": "gte"},
    {"type": "rule_attribute", "attribute": "title", "value": "x", "op": "ne"}, {"type": "rule_attribute", "attribute": "title", "value": 5},
    {"type": "rule_attribute", "attribute": "date", "value": "2024-01-06", "op": "lt"}, {"type": "rule_attribute", "attribute": "date", "value": "2024-01-05", "op": "gt"},
    {"type": "rule_attribute", "attribute": "date", "value": "2023-12-31", "op": "lte"},
    {"type": "rule_attribute", "attribute": "ratio", "value": 2.5}, {"type": "rule_attribute", "attribute": "ratio", "value": 3, "op": "lt"},
    {"type": "rule_attribute", "attribute": "ratio", "value": "2", "op": "lte"}, {"type": "rule_attribute", "attribute": "ratio", "value": 2.5, "op": "ne"},
    {"type": "rule_attribute", "attribute": "score", "value": 5}, {"type": "rule_attribute", "attribute": "score", "value": 7, "op": "gte"},
    {"type": "rule_attribute", "attribute": "references", "value": "r1", "op": "in"}, {"type": "rule_attribute", "attribute": "references", "value": "zz", "op": "in"},
    {"type": "rule_attribute", "attribute": "references", "value": "zz", "op": "not_in"}, {"type": "rule_attribute", "attribute": "references", "value": "r1", "op": "eq"},
    {"type": "rule_attribute", "attribute": "references", "value": "r1", "op": "ne"}, {"type": "rule_attribute", "attribute": "references", "value": "r1", "op": "gte"},
    {"type": "rule_attribute", "attribute": "nosuch", "value": "x"}, {"type": "rule_attribute", "attribute": "nosuch", "value": "x", "op": "ne"},
    # relations the documentation says raise SigmaConfigurationError when the condition is evaluated
    {"type": "rule_attribute", "attribute": "level", "value": "bogus"}, {"type": "rule_attribute", "attribute": "level", "value": 3},
    {"type": "rule_attribute", "attribute": "title", "value": "t", "op": "gte"}, {"type": "rule_attribute", "attribute": "ratio", "value": "abc"},
    {"type": "rule_attribute", "attribute": "date", "value": "yesterday"}, {"type": "rule_attribute", "attribute": "author", "value": "x"},
    {"type": "rule_attribute", "attribute": "level", "value": "low", "op": "in"}, {"type": "rule_attribute", "attribute": "logsource", "value": "x"},
    {"type": "tag", "tag": "attack.t1234"}, {"type": "tag", "tag": "attack.t9999"},
]
DET_CONDS = [
    {"type": "match_string", "cond": "any", "pattern": "^x"}, {"type": "match_string", "cond": "all", "pattern": "^x"},
    {"type": "match_string", "cond": "any", "pattern": "^x", "negate": True}, {"type": "match_string", "cond": "all", "pattern": "a"},
    {"type": "match_string", "cond": "all", "pattern": "^x", "negate": True}, {"type": "match_string", "cond": "any", "pattern": "1$"},
    {"type": "match_string", "cond": "any", "pattern": ".*w"}, {"type": "match_string", "cond": "all", "pattern": "[vo]", "negate": True},
    {"type": "match_value", "cond": "any", "value": "valueA"}, {"type": "match_value", "cond": "any", "value": 1},
    {"type": "match_value", "cond": "any", "value": "x*"}, {"type": "match_value", "cond": "all", "value": "valueA"},
    {"type": "match_value", "cond": "any", "value": 2}, {"type": "match_value", "cond": "any", "value": "1"},
    {"type": "match_value", "cond": "any", "value": "a\\*b"}, {"type": "match_value", "cond": "any", "value": "c?"},
    {"type": "match_value", "cond": "any", "value": 7}, {"type": "match_value", "cond": "any", "value": "svc"},
    {"type": "match_value", "cond": "any", "value": "r?"},
    # the plain text of a value writes a literal asterisk / question mark with a backslash
    {"type": "match_string", "cond": "any", "pattern": ".*\\\\[*?]"}, {"type": "match_string", "cond": "all", "pattern": "[^*?]*$"},
    {"type": "match_string", "cond": "any", "pattern": "[a-z]+[*?]", "negate": True},
    {"type": "contains_wildcard", "cond": "any"}, {"type": "contains_wildcard", "cond": "all"},
    {"type": "is_null", "cond": "all"}, {"type": "is_null", "cond": "any"},
    {"type": "processing_item_applied", "processing_item_id": "map"}, {"type": "processing_item_applied", "processing_item_id": "nothere"},
    {"type": "processing_item_applied", "processing_item_id": "state"},
    {"type": "processing_state", "key": "k", "val": "v"}, {"type": "processing_state", "key": "n", "val": 5, "op": "lte"},
    {"type": "processing_state", "key": "zz", "val": 1, "op": "ne"},
]
FIELD_CONDS = [
    {"type": "include_fields", "fields": ["fieldA", "mappedB"]}, {"type": "exclude_fields", "fields": ["fieldA"]},
    {"type": "include_fields", "fields": ["field[AC]$", "^mapped"], "mode": "re"}, {"type": "exclude_fields", "fields": ["^field[BD]"], "mode": "re"},
    {"type": "include_fields", "fields": ["fieldB"]}, {"type": "processing_state", "key": "k", "val": "v"},
    {"type": "exclude_fields", "fields": ["[BD]$"], "mode": "re"}, {"type": "include_fields", "fields": ["ield[A-D]", "field"], "mode": "re"},
    {"type": "exclude_fields", "fields": ["fieldA", "fieldF", "fieldG"]}, {"type": "include_fields", "fields": ["field."], "mode": "plain"},
    {"type": "exclude_fields", "fields": ["field.$"], "mode": "re"}, {"type": "include_fields", "fields": ["field", "mapped", "A"]},
    {"type": "exclude_fields", "fields": ["B", "field", "fieldAA"]}, {"type": "include_fields", "fields": []}, {"type": "exclude_fields", "fields": [], "mode": "re"},
    {"type": "processing_item_applied", "processing_item_id": "map"}, {"type": "processing_item_applied", "processing_item_id": "nothere"},
    {"type": "processing_state", "key": "n", "val": 6, "op": "lt"},
]
STR_KEYS = ("category", "product", "service", "field", "processing_item_id", "key", "attribute", "tag", "pattern")


def rand_expr(rnd, ids, depth=2):
    if depth == 0 or rnd.random() < 0.3:
        return rnd.choice(ids)
    r = rnd.random()
    if r < 0.25:
        return "not " + rand_expr(rnd, ids, depth - 1)
    op = rnd.choice(["and", "or"])
    a, b = rand_expr(rnd, ids, depth - 1), rand_expr(rnd, ids, depth - 1)
    return f"({a} {op} {b})" if rnd.random() < 0.7 else f"{a} {op} {b}"


def gen_group(rnd, pool):
    n = rnd.choice([0, 0, 1, 1, 2, 2])
    kinds = sorted({c["type"] for c in pool})
    # the condition type first (every registered type equally often), then one of its parameterisations
    conds = []
    for _ in range(n):
        k = rnd.choice(kinds)
        conds.append(copy.deepcopy(rnd.choice([c for c in pool if c["type"] == k])))
    g = {"conds": conds, "neg": rnd.random() < 0.35, "link": rnd.choice(["and", "or", None])}
    if n >= 1 and rnd.random() < 0.35:
        ids = [rnd.choice(["c", "notlinux", "and_x", "a-1", "or2"]) + str(i) for i in range(n)]
        expr = rand_expr(rnd, ids)
        # every identifier must be referenced
        for i in ids:
            if not re.search(r"(?<![\w-])" + re.escape(i) + r"(?![\w-])", expr):
                expr = f"{expr} or {i}"
        g["expr"] = expr
        g["ids"] = ids
        g["link"] = None
    return g


def gen_cases(tier, seed, gen, effort):
    rnd = random.Random(seed * 1301 + 13)
    thorough = tier == "thorough"
    cases = []
    for _ in range((2500 if not thorough else 40000) * effort):
        pre = {"state": rnd.random() < 0.7, "state_cond": rnd.choice([None, {"type": "logsource", "category": "cat"}, {"type": "logsource", "category": "zzz"}]),
               "map": rnd.random() < 0.7, "logsrc": rnd.random() < 0.4, "n5": rnd.random() < 0.3, "nest": rnd.random() < 0.25}
        c = {"pre": pre, "rule": gen_group(rnd, RULE_CONDS), "det": gen_group(rnd, DET_CONDS), "field": gen_group(rnd, FIELD_CONDS)}
        r = rnd.random()
        if r < 0.25:
            c["prior"] = True                      # the pipeline object converted another rule first
        elif r < 0.45:
            c["probe"] = "drop"                    # item-level marker on a rule with field references
            c["det"] = {"conds": [], "neg": False, "link": None}
            c["prior"] = rnd.random() < 0.3
        elif r < 0.6:
            c["doc"] = "ref"                       # suffix probe on the rule with field references
        elif r < 0.66:
            c["doc"] = "corr"                      # a correlation rule (unresolved references): rule-level gate only
            c["det"] = {"conds": [], "neg": False, "link": None}
        cases.append(c)
    # keyword stream: the probed rule has detection items without a field name
    rnd2 = random.Random(seed * 2089 + 1313)
    for _ in range((1200 if not thorough else 15000) * effort):
        pre = {"state": rnd2.random() < 0.7, "state_cond": rnd2.choice([None, {"type": "logsource", "category": "cat"}, {"type": "logsource", "category": "zzz"}]),
               "map": rnd2.random() < 0.7, "logsrc": rnd2.random() < 0.4, "n5": rnd2.random() < 0.3, "nest": rnd2.random() < 0.25}
        c = {"pre": pre, "rule": gen_group(rnd2, RULE_CONDS), "det": gen_group(rnd2, DET_CONDS), "field": gen_group(rnd2, FIELD_CONDS), "doc": "kw"}
        if rnd2.random() < 0.7:
            c["probe"] = "drop"
        if rnd2.random() < 0.2:
            c["prior"] = True
        cases.append(c)
    # value stream: value lists of mixed kinds, escaped special characters, single and listed field references
    rnd3 = random.Random(seed * 3049 + 131313)
    for _ in range((1500 if not thorough else 20000) * effort):
        pre = {"state": rnd3.random() < 0.7, "state_cond": rnd3.choice([None, {"type": "logsource", "category": "cat"}, {"type": "logsource", "category": "zzz"}]),
               "map": rnd3.random() < 0.5, "logsrc": rnd3.random() < 0.3, "n5": rnd3.random() < 0.3, "nest": rnd3.random() < 0.15}
        c = {"pre": pre, "rule": gen_group(rnd3, RULE_CONDS), "det": gen_group(rnd3, DET_CONDS), "field": gen_group(rnd3, FIELD_CONDS), "doc": "val"}
        if rnd3.random() < 0.35:
            c["probe"] = "drop"
        if rnd3.random() < 0.1:
            c["prior"] = True
        cases.append(c)
    return cases, False


def doc_of(case):
    if case.get("doc") == "corr":
        return CORR_DOC
    if case.get("doc") == "kw":
        return RULEDOC_KW
    if case.get("doc") == "val":
        return RULEDOC_VAL
    return RULEDOC_REF if case.get("probe") == "drop" or case.get("doc") == "ref" else RULEDOC


def group_yaml(prefix, g, d):
    if "expr" in g:
        d[f"{prefix}_conditions"] = {i: c for i, c in zip(g["ids"], g["conds"])}
        d[f"{prefix}_cond_expr"] = g["expr"]
    else:
        d[f"{prefix}_conditions"] = g["conds"]
        if g["link"] is not None:
            d[f"{prefix}_cond_op"] = g["link"]
    if g["neg"]:
        d[f"{prefix}_cond_not"] = True


def pipeline_dict(case):
    ts = []
    pre = case["pre"]
    if pre["state"]:
        t = {"id": "state", "type": "set_state", "key": "k", "val": "v"}
        if pre["state_cond"]:
            t["rule_conditions"] = [pre["state_cond"]]
        ts.append(t)
    if pre["n5"]:
        ts.append({"id": "n5", "type": "set_state", "key": "n", "val": 5})
    if pre.get("nest"):
        # a nested pipeline that sets state: what it sets (and overrides) is visible to the items after it, like a flat item sequence
        ts.append({"id": "nst", "type": "nest", "items": [
            # conditioned on state set OUTSIDE the nest: a nested pipeline starts with the state of the enclosing one
            {"id": "nst_m", "type": "set_state", "key": "m", "val": "x", "rule_conditions": [{"type": "processing_state", "key": "k", "val": "v"}]},
            {"id": "nst_k", "type": "set_state", "key": "k", "val": "w"}]})
    if pre["map"]:
        ts.append({"id": "map", "type": "field_name_mapping", "mapping": {"fieldB": "mappedB"}})
    if pre["logsrc"]:
        ts.append({"id": "ls", "type": "change_logsource", "category": "newcat"})
    probe = {"id": "probe", "type": "field_name_suffix", "suffix": "_X"} if case.get("probe") != "drop" else {"id": "probe", "type": "drop_detection_item"}
    group_yaml("rule", case["rule"], probe)
    group_yaml("detection_item", case["det"], probe)
    group_yaml("field_name", case["field"], probe)
    ts.append(probe)
    return {"name": "p", "priority": 1, "transformations": ts}


def run_impl(case):
    from sigma.rule import SigmaRule
    from sigma.processing.pipeline import ProcessingPipeline
    from sigma.rule.detection import SigmaDetection
    from sigma.types import SigmaFieldReference
    try:
        pl = ProcessingPipeline.from_dict(pipeline_dict(case))
    except Exception as e:
        return {"outcome": outcome_of_exception(e), "stage": "load", "msg": str(e)[:160]}
    prior_error = None
    if case.get("prior"):
        try:
            pl.apply(SigmaRule.from_dict(copy.deepcopy(PRIOR_DOC)))
        except Exception as e:     # the prior rule may hit the same raising condition; what matters is what remains visible
            prior_error = outcome_of_exception(e)
    try:
        if case.get("doc") == "corr":
            from sigma.correlations import SigmaCorrelationRule
            rule = SigmaCorrelationRule.from_dict(copy.deepcopy(doc_of(case)))
            pl.apply(rule)
            return {"outcome": "ok", "fields": [], "dets": {}, "applied": sorted(x for x in pl.applied_ids if x != "nst"), "prior_error": prior_error, "group_by": list(rule.group_by or [])}
        rule = SigmaRule.from_dict(copy.deepcopy(doc_of(case)))
        pl.apply(rule)
        out, refs_out = [], []

        def walk(d):
            for it in d.detection_items:
                if isinstance(it, SigmaDetection):
                    walk(it)
                else:
                    out.append(it.field)
                    refs_out.append([v.field for v in it.value if isinstance(v, SigmaFieldReference)])
        dets, refs = {}, {}
        for name, d in rule.detection.detections.items():      # every detection, in document order
            n0 = len(out)
            walk(d)
            dets[name] = out[n0:]
            refs[name] = refs_out[n0:]      # per item: the fields its values refer to, after the pipeline
        return {"outcome": "ok", "fields": out, "dets": dets, "refs": refs, "applied": sorted(x for x in pl.applied_ids if x != "nst"), "prior_error": prior_error}
    except Exception as e:
        return {"outcome": outcome_of_exception(e), "stage": "apply", "msg": str(e)[:160], "prior_error": prior_error}


# ------------------------------------------------------------------ reading of the rule document (trusted)
def flat_items(doc):
    """detection items in document order, nested lists flattened: (detection, field, values, is_reference)"""
    out = []

    def walk(name, d):
        if isinstance(d, list) and d and not any(isinstance(x, (dict, list)) for x in d):
            out.append((name, None, list(d), False))        # a list of keywords: one item without field name
        elif isinstance(d, list):
            for x in d:
                walk(name, x)
        elif isinstance(d, dict):
            for k, v in d.items():
                field, _, mod = k.partition("|")
                vals = v if isinstance(v, list) else [v]
                out.append((name, field, list(vals), mod == "fieldref"))
        else:
            out.append((name, None, [d], False))            # a single keyword
    for name, d in doc.get("detection", {}).items():
        if name != "condition":
            walk(name, d)
    return out


def num_json(x):
    d = Decimal(repr(x)) if isinstance(x, float) else Decimal(x)
    e = max(0, -d.as_tuple().exponent)
    return [int(d.scaleb(e)), e]


def scalar_json(v):
    if isinstance(v, bool):
        return {"b": v}
    if isinstance(v, (int, float)):
        return {"n": num_json(v)}
    return {"s": cps(v)}


def value_json(v, ref):
    if ref:
        return {"ref": cps(v)}
    if v is None:
        return None
    return scalar_json(v)


def attr_json(name, v):
    if name == "level":
        return {"level": cps(v)}
    if name == "status":
        return {"status": cps(v)}
    if name == "date":
        y, m, d = v.split("-")
        return {"date": [int(y), int(m), int(d)]}
    if isinstance(v, bool) or v is None or isinstance(v, dict):
        return "unsupported"
    if isinstance(v, (int, float)):
        return {"num": num_json(v)}
    if isinstance(v, str):
        return {"str": cps(v)}
    if isinstance(v, list):
        return {"list": [cps(str(x)) for x in v]}
    return "unsupported"


# attributes a SigmaRule object has although the document does not set them (None / objects): unsupported
UNSET_ATTRS = ("author", "id", "description", "modified", "logsource", "detection", "custom_attributes", "source", "errors")


def unset_attrs(doc):
    """a correlation rule object has no logsource / detection attribute at all (the condition is then false, not an error)"""
    return tuple(k for k in UNSET_ATTRS if k not in ("logsource", "detection")) if "correlation" in doc else UNSET_ATTRS


def world_json(doc, seeded_applied=None):
    items = [{"det": cps(d), "field": cps(f) if f is not None else None, "values": [value_json(v, ref) for v in vals],
              "applied": [cps(x) for x in (seeded_applied or {}).get((d, f), [])]} for d, f, vals, ref in flat_items(doc)]
    corr = "correlation" in doc
    attrs = [[cps(k), attr_json(k, v)] for k, v in doc.items() if k not in ("logsource", "detection", "tags")]
    attrs += [[cps(k), "unsupported"] for k in unset_attrs(doc) if k not in doc or k in ("logsource", "detection")]
    ls = doc.get("logsource", {})
    return {"kind": "correlation" if corr else "sigma", "refSources": [], "logsource": {k: (cps(ls[k]) if ls.get(k) is not None else None) for k in ("category", "product", "service")},
            "items": items, "fields": [], "attrs": attrs, "tags": [cps(t) for t in doc.get("tags", [])]}


def cond_json(c):
    out = {}
    for k, v in c.items():
        if k in STR_KEYS:
            out[k] = cps(v) if v is not None else None
        elif k == "fields":
            out[k] = [cps(x) for x in v]
        elif k in ("value", "val"):
            out[k] = scalar_json(v)
        else:
            out[k] = v
    return out


def group_json(g):
    if "expr" in g:
        link = {"expr": cps(g["expr"]), "ids": [cps(i) for i in g["ids"]]}
    else:
        link = "any" if g["link"] == "or" else "all"
    return {"n": len(g["conds"]), "conds": [cond_json(c) for c in g["conds"]], "neg": g["neg"], "link": link}


NOGROUP = {"conds": [], "neg": False, "link": None}


def items_json(case, rule_group=None):
    """the pipeline description for the specification, item by item as in pipeline_dict"""
    out = []
    flat = []
    for t in pipeline_dict(case)["transformations"][:-1]:
        flat += t["items"] if t["type"] == "nest" else [t]      # a nested pipeline is the sequence of its items
    for t in flat:
        g = {"conds": t.get("rule_conditions", []), "neg": False, "link": None}
        a = {"type": t["type"]}
        if t["type"] == "set_state":
            a.update(key=cps(t["key"]), val=scalar_json(t["val"]))
        elif t["type"] == "field_name_mapping":
            a["mapping"] = [[cps(k), cps(v)] for k, v in t["mapping"].items()]
        elif t["type"] == "change_logsource":
            a.update({k: (cps(t[k]) if t.get(k) is not None else None) for k in ("category", "product", "service")})
        out.append({"id": cps(t["id"]), "rule": group_json(g), "det": group_json(NOGROUP), "field": group_json(NOGROUP), "action": a})
    a = {"type": "drop_detection_item"} if case.get("probe") == "drop" else {"type": "field_name_suffix", "suffix": cps("_X")}
    out.append({"id": cps("probe"), "rule": group_json(rule_group or case["rule"]), "det": group_json(case["det"]),
                "field": group_json(case["field"]), "action": a})
    return out


def re_table(case):
    doc = doc_of(case)
    names, strings = set(), set()
    for _, f, vals, ref in flat_items(doc):
        if f is not None:
            names.add(f)
        for v in vals:
            (names if ref else strings).add(v if ref else plain_text(v)) if isinstance(v, str) else None
    names |= {"mappedB"}
    vp = {c["pattern"] for c in case["det"]["conds"] if c["type"] == "match_string"}
    fp = {p for c in case["field"]["conds"] if c.get("mode") == "re" for p in c["fields"]}
    return [[cps(p), cps(s), re.match(p, s) is not None] for p in sorted(vp) for s in sorted(strings)] + \
           [[cps(p), cps(s), re.match(p, s) is not None] for p in sorted(fp) for s in sorted(names)]


# ------------------------------------------------------------------ recorded differences between documentation and code
def d70_leaf(c):
    return c["type"] == "rule_attribute" and c["attribute"] in INT_ATTRS and c.get("op", "eq") not in ("in", "not_in") \
        and isinstance(c["value"], (int, float)) and not isinstance(c["value"], bool)


def d71_leaf(c):
    return c["type"] == "rule_attribute" and c.get("op") in ("in", "not_in") and c["attribute"] in ("level", "status", "date", "score", "ratio")


def alt_request(case):
    """the same case as the code reads it where a recorded finding applies (None if none applies)"""
    quirks = []
    rule_group = case["rule"]
    if any(d70_leaf(c) for c in case["rule"]["conds"]):
        quirks.append("D70")
        true_leaf = {"type": "is_sigma_correlation_rule" if case.get("doc") == "corr" else "is_sigma_rule"}     # a condition that holds on this rule
        rule_group = dict(case["rule"], conds=[true_leaf if d70_leaf(c) else c for c in case["rule"]["conds"]])
    seeded = None
    doc = doc_of(case)
    if case["pre"]["map"] and (doc is RULEDOC_REF or doc is RULEDOC_VAL) and any(c["type"] == "processing_item_applied" and c["processing_item_id"] == "map"
                                                          for c in case["det"]["conds"] + case["field"]["conds"]):
        quirks.append("D72")
        seeded = {(d, f): ["map"] for d, f, vals, ref in flat_items(doc) if ref and not any(v == "fieldB" for v in vals)}
    if not quirks:
        return None, []
    return {"world": world_json(doc, seeded), "items": items_json(case, rule_group)}, quirks


def make_request(case, impl, gen):
    r = {"op": "gate.case", "world": world_json(doc_of(case)), "items": items_json(case), "re": re_table(case)}
    alt, _ = alt_request(case)
    if alt is not None:
        r["alt"] = alt
    g = gen.get("PipeCond")
    if g:
        r["grammar"] = {k: (cps(v) if isinstance(v, str) else [cps(x) for x in v] if isinstance(v, list) else v) for k, v in g.items()}
    return r


# ------------------------------------------------------------------ second implementation of the individual conditions (Python)
def world(case):
    """state of the rule when the probe runs, from the documented effect of the pre-items"""
    pre = case["pre"]
    doc = doc_of(case)
    corr = "correlation" in doc
    w = {"state": {}, "applied": set(), "category": None if corr else "cat", "product": None if corr else "prod", "service": None, "names": {}, "doc": doc, "corr": corr,
         "items": [{"det": d, "field": f, "values": ([] if ref else v), "by": set(), "refs": (list(v) if ref else [])}
                   for d, f, v, ref in flat_items(doc)]}
    if pre["state"]:
        c = pre["state_cond"]
        if c is None or (c.get("category") == "cat" and not corr):
            w["state"]["k"] = "v"; w["applied"].add("state")
    if pre["n5"]:
        w["state"]["n"] = 5; w["applied"].add("n5")
    if pre.get("nest"):
        if w["state"].get("k") == "v":
            w["state"]["m"] = "x"
        w["state"]["k"] = "w"
    if pre["map"]:
        w["applied"].add("map")
        for it in w["items"]:
            if it["field"] == "fieldB":
                it["field"] = "mappedB"; it["by"].add("map")
            if "fieldB" in it["refs"]:
                it["refs"] = ["mappedB" if x == "fieldB" else x for x in it["refs"]]; it["by"].add("map")
                w["names"].setdefault("mappedB", set()).add("map"); w["names"].setdefault("fieldB", set()).add("map")
    if pre["logsrc"]:
        w["applied"].add("ls")
        if not corr:
            w["category"] = "newcat"; w["product"] = None; w["service"] = None
    return w


def same_kind(a, b):
    num = lambda x: isinstance(x, (int, float))
    return (isinstance(a, str) and isinstance(b, str)) or (num(a) and num(b))


def state_cond(w, c):
    if c["key"] not in w["state"]:
        return False
    sv, v, op = w["state"][c["key"]], c["val"], c.get("op", "eq")
    if op in ("eq", "ne"):
        return (same_kind(sv, v) and sv == v) == (op == "eq")
    if not same_kind(sv, v):
        return False
    return {"gte": sv >= v, "gt": sv > v, "lte": sv <= v, "lt": sv < v}[op]


def scan(text):
    """a string of the rule document, character by character: ("c", x) a plain character, ("w", x) a wildcard.
    A backslash escapes '*', '?' and itself; before anything else (and at the end) it is a plain character."""
    out, i = [], 0
    while i < len(text):
        ch = text[i]
        if ch == "\\" and i + 1 < len(text) and text[i + 1] in "*?\\":
            out.append(("c", text[i + 1]))
            i += 2
            continue
        out.append(("w", ch) if ch in "*?" else ("c", ch))
        i += 1
    return out


def plain_text(text):
    """the plain text of a string value (what match_string sees): wildcards as they are, a literal '*' / '?' with a backslash"""
    return "".join(x if k == "w" or x not in "*?" else "\\" + x for k, x in scan(text))


def value_eq(v, p):
    """a detection item value equals a parameter: same kind (string / number / boolean) and equal; strings are equal when
    they are the same sequence of plain characters and wildcards"""
    if isinstance(v, bool) or isinstance(p, bool):
        return isinstance(v, bool) and isinstance(p, bool) and v == p
    if isinstance(v, str) or isinstance(p, str):
        return isinstance(v, str) and isinstance(p, str) and scan(v) == scan(p)
    return v is not None and v == p


def attr_cond(w, c):
    """None = raises SigmaConfigurationError"""
    doc, name, v, op = w["doc"], c["attribute"], c["value"], c.get("op", "eq")
    if name not in doc or name in ("logsource", "detection", "tags"):
        return None if name in unset_attrs(doc) else False
    a = doc[name]
    rel = lambda x, y: {"eq": x == y, "ne": x != y, "gte": x >= y, "gt": x > y, "lte": x <= y, "lt": x < y}[op]
    if isinstance(a, list):
        return {"in": v in a, "not_in": v not in a, "ne": True}.get(op, False)
    if name in ("level", "status"):
        order = LEVELS if name == "level" else STATUSES
        if op in ("in", "not_in") or not isinstance(v, str) or v.lower() not in order:
            return None
        return rel(order.index(a), order.index(v.lower()))
    if name == "date":
        if op in ("in", "not_in") or not isinstance(v, str) or not re.fullmatch(r"\d{4}-\d{2}-\d{2}", v):
            return None
        return rel(a, v)               # ISO dates of equal length order like their text
    if isinstance(a, str):
        return (a == v) == (op == "eq") if op in ("eq", "ne") else None
    if isinstance(a, (int, float)):
        if op in ("in", "not_in"):
            return None
        if isinstance(v, str):
            if not re.fullmatch(r"[+-]?\d+", v):
                return None
            v = int(v)
        return rel(a, v)
    return None


def rule_cond(w, c):
    t = c["type"]
    if t == "logsource":       # a correlation rule matches through the rules it refers to; none is resolved here
        return not w["corr"] and all(c.get(k) is None or c.get(k) == w[k] for k in ("category", "product", "service"))
    if t == "contains_field":
        return any(it["field"] == c["field"] for it in w["items"])
    if t == "contains_detection_item":
        return any(it["field"] == c["field"] and any(value_eq(v, c["value"]) for v in it["values"]) for it in w["items"])
    if t == "processing_item_applied":
        return c["processing_item_id"] in w["applied"]
    if t == "processing_state":
        return state_cond(w, c)
    if t == "is_sigma_rule":
        return not w["corr"]
    if t == "is_sigma_correlation_rule":
        return w["corr"]
    if t == "rule_attribute":
        return bool(attr_cond(w, c))
    if t == "tag":
        return c["tag"] in w["doc"].get("tags", [])
    raise KeyError(t)


def has_wild(v):
    return isinstance(v, str) and any(k == "w" for k, _ in scan(v))


def det_cond(w, it, c):
    t = c["type"]
    f = any if c.get("cond") == "any" else all
    vals = it["values"] + [("ref", x) for x in it["refs"]]       # a reference is a value that no value condition recognises
    if t == "match_string":
        def m(v):
            r = isinstance(v, str) and re.match(c["pattern"], plain_text(v)) is not None
            return (not r) if c.get("negate") else r
        return f(m(v) for v in vals)
    if t == "match_value":
        return f((not isinstance(v, tuple) and v is not None and value_eq(v, c["value"])) for v in vals)
    if t == "contains_wildcard":
        return f(has_wild(v) for v in vals)
    if t == "is_null":
        return f(v is None for v in vals)
    if t == "processing_item_applied":
        return c["processing_item_id"] in it["by"]
    if t == "processing_state":
        return state_cond(w, c)
    raise KeyError(t)


def field_cond_name(w, name, c):
    t = c["type"]
    if t in ("include_fields", "exclude_fields"):
        if name is None:                 # a keyword item has no name: it is on no list
            r = False
        elif c.get("mode") == "re":
            r = any(re.match(p, name) for p in c["fields"])
        else:
            r = name in c["fields"]
        return r if t == "include_fields" else not r
    if t == "processing_state":
        return state_cond(w, c)
    if t == "processing_item_applied":
        return c["processing_item_id"] in w["names"].get(name, set())
    raise KeyError(t)


def field_cond_item(w, it, c):
    if c["type"] == "processing_item_applied":
        return c["processing_item_id"] in it["by"]
    return field_cond_name(w, it["field"], c) or any(field_cond_name(w, x, c) for x in it["refs"])


def python_leaves(case):
    w = world(case)
    return {"rule": [rule_cond(w, c) for c in case["rule"]["conds"]],
            "ruleRaises": [c["type"] == "rule_attribute" and attr_cond(w, c) is None for c in case["rule"]["conds"]],
            "det": [[det_cond(w, it, c) for c in case["det"]["conds"]] for it in w["items"]],
            "fieldOnItem": [[field_cond_item(w, it, c) for c in case["field"]["conds"]] for it in w["items"]],
            "fieldOnName": [[field_cond_name(w, it["field"], c) for c in case["field"]["conds"]] for it in w["items"]]}


def uncps_(a):
    return None if a is None else "".join(chr(x) for x in a)


def observed(case, impl, before):
    if case.get("probe") == "drop":
        return [b["field"] not in impl["dets"][b["det"]] for b in before]
    return [f is not None and f.endswith("_X") for f in impl["fields"]]


def judge(case, impl, reply):
    io = impl["outcome"]
    key = (case["pre"], case["rule"], case["det"], case["field"], case.get("probe"), case.get("prior"), case.get("doc"))
    nconds = sum(len(case[k]["conds"]) for k in ("rule", "det", "field"))
    nt = nconds >= 1
    kinds = sorted({f"{k}:{c['type']}" for k in ("rule", "det", "field") for c in case[k]["conds"]})
    tags = [f"impl:{io.split(':')[0]}", f"conds:{nconds}", f"probe:{case.get('probe', 'suffix')}", f"prior:{bool(case.get('prior'))}", f"doc:{'ref' if doc_of(case) is RULEDOC_REF else case.get('doc', 'plain')}"] + \
           [f"{k}:{'expr' if 'expr' in case[k] else case[k]['link']}/{len(case[k]['conds'])}/{'neg' if case[k]['neg'] else 'pos'}" for k in ("rule", "det", "field")] + \
           [f"kind:{k}" for k in kinds]
    probe_yaml = pipeline_dict(case)['transformations'][-1]
    if reply.get("exprError"):
        if io.startswith("sigma:"):
            return Verdict("ok", "", nt, key, tags=tuple(tags + ["expr-rejected"]))
        if io.startswith("other:"):
            return Verdict("violation", f"{io} at {impl.get('stage')}: {impl.get('msg')} for pipeline {pipeline_dict(case)}", nt, key, tags=tuple(tags))
        return Verdict("drift", f"model cannot read an expression the implementation accepts: {[case[k].get('expr') for k in ('rule','det','field')]}", nt, key, tags=tuple(tags))
    if reply["raises"]:
        bad = [c for c, r in zip(case["rule"]["conds"], reply["leaves"]["ruleRaises"]) if r]
        if io == "sigma:SigmaConfigurationError" and impl.get("stage") == "apply":
            return Verdict("ok", "", nt, key, tags=tuple(tags + ["raises"]))
        fid = "D71" if io == "other:KeyError" and any(d71_leaf(c) for c in bad) else None
        return Verdict("violation", (f"rule condition {bad[0] if bad else probe_yaml} is documented to raise SigmaConfigurationError when evaluated on the rule "
                                     f"(level high, status test, date 2024-01-05, title 't', ratio 2.5); observed: {io} {impl.get('msg', '') if io != 'ok' else ''}"),
                       nt, key, finding=fid, tags=tuple(tags + ["raises"]))
    if io.startswith("other:"):
        return Verdict("violation", f"{io} at {impl.get('stage')}: {impl.get('msg')} for pipeline {pipeline_dict(case)}", nt, key, tags=tuple(tags))
    if io.startswith("sigma:"):
        return Verdict("violation", f"valid pipeline rejected at {impl.get('stage')}: {io} {impl.get('msg')} :: {probe_yaml}", nt, key, tags=tuple(tags))
    before = [{"det": uncps_(b["det"]), "field": uncps_(b["field"]), "applied": [uncps_(x) for x in b["applied"]]} for b in reply["before"]]
    w = world(case)
    pre_txt = f"(pre-items: {case['pre']}{'; the pipeline object converted another rule (log source category zzz) first' if case.get('prior') else ''})"

    def compare(rep):
        got, want = observed(case, impl, before), rep["onDet"]
        if got != want:
            i = next(k for k, (a, b) in enumerate(zip(got, want)) if a != b) if len(got) == len(want) else 0
            it = w["items"][i]
            g = reply["groups"]
            return (f"probe {probe_yaml} {'acted on' if got[i] else 'did not act on'} detection item "
                    f"{before[i]['det']}.{before[i]['field'] if before[i]['field'] is not None else '<keyword item, no field name>'} = {it['values'] or ['fieldref ' + x for x in it['refs']]} although its conditions evaluate to {want[i]} there "
                    f"[rule group {rep['onRule']}, detection-item group {g['det'][i]}, field-name group on the item {g['fieldOnItem'][i]}, on its field name {g['fieldOnName'][i]}; "
                    f"conditions one by one: rule {reply['leaves']['rule']}, detection item {reply['leaves']['det'][i]}, field name {reply['leaves']['fieldOnItem'][i]}] {pre_txt}")
        if ("probe" in impl["applied"]) != rep["onRule"]:
            return f"probe recorded as applied={'probe' in impl['applied']} but its rule conditions evaluate to {rep['onRule']} (one by one: {reply['leaves']['rule']}): {probe_yaml} {pre_txt}"
        want_applied = sorted(uncps_(x) for x in rep["applied"])
        if impl["applied"] != want_applied:
            return f"items recorded as applied to the rule: {impl['applied']}, expected {want_applied} for pipeline {pipeline_dict(case)['transformations']}"
        after = {}
        for a in rep["after"]:
            after.setdefault(uncps_(a["det"]), []).append(uncps_(a["field"]))
        for d in impl["dets"]:
            if impl["dets"][d] != after.get(d, []):
                return f"field names of detection {d} after the pipeline: {impl['dets'][d]}, expected {after.get(d, [])} for pipeline {pipeline_dict(case)['transformations']}"
        after_refs = {}
        for a in rep["after"]:
            after_refs.setdefault(uncps_(a["det"]), []).append([uncps_(x) for x in a.get("refs", [])])
        for d in impl.get("refs", {}):
            if impl["refs"][d] != after_refs.get(d, []):
                return (f"fields referenced (|fieldref) in the values of detection {d} after the pipeline, item by item ({impl['dets'][d]}): {impl['refs'][d]}, expected {after_refs.get(d, [])}: "
                        f"a field-name transformation renames a referenced field iff its detection-item and field-name conditions hold on the item and its field-name conditions "
                        f"(linking / negation / expression) hold for the referenced name; pipeline {pipeline_dict(case)['transformations']}")
        return None
    what = compare(reply)
    if what is not None:
        fid = None
        if "alt" in reply and not reply["alt"].get("exprError") and not reply["alt"]["raises"] and compare(reply["alt"]) is None:
            fid = alt_request(case)[1][0]
        return Verdict("violation", what, nt, key, finding=fid, tags=tuple(tags))
    # second implementation of the leaves: any disagreement with Lean is drift (one of them misreads the documentation)
    py = python_leaves(case)
    for k in ("rule", "ruleRaises", "det", "fieldOnItem", "fieldOnName"):
        if py[k] != reply["leaves"][k]:
            return Verdict("drift", f"Python evaluator and Lean specification disagree on the {k} conditions: python {py[k]} lean {reply['leaves'][k]} for {case[{'ruleRaises': 'rule', 'fieldOnItem': 'field', 'fieldOnName': 'field'}.get(k, k)]['conds']} {pre_txt}", nt, key, tags=tuple(tags))
    if [(b["det"], b["field"], sorted(b["applied"])) for b in before] != [(it["det"], it["field"], sorted(it["by"])) for it in w["items"]]:
        return Verdict("drift", f"Python evaluator and Lean specification disagree on the rule after the pre-items: {before} vs {w['items']}", nt, key, tags=tuple(tags))
    if reply.get("clash"):
        return Verdict("drift", "a processing_state condition orders a string against a number (outside the documented meaning; must not be generated)", nt, key, tags=tuple(tags))
    return Verdict("ok", "", nt, key, tags=tuple(tags))
