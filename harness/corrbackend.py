"""A TextQueryBackend whose correlation templates are delimiter-structured, the factory over the
switches `convert_correlation_rule_from_template` and its phases read, and the parser that reads an emitted
correlation query back into a record.  Used by C10.

Detection-rule queries use the token syntax of `harness/qsyntax.py`.  Every correlation placeholder is emitted inside
a bracket `⟦tag …⟧`; lists are joined with `¦`.  The generators never produce `⟦`, `⟧` or `¦`, and brackets nest, so a
correlation query embedded as a sub-query of another correlation query still parses.

Shape (TNAME / M are constants baked into each template, so the parser sees which template was selected):

  ⟦corr ⟦qt TNAME⟧⟦m M⟧⟦search …⟧⟦typing …⟧⟦agg …⟧⟦cond …⟧⟦ts {timespan}⟧⟦gb {groupby}⟧⟧
  search   single: ⟦single ⟦tag {rule.rule.name}⟧⟦tagid {rule.rule.id}⟧⟦query {query}⟧⟦norms {normalization}⟧⟧
                   (configuration singleTag="ruleid": ⟦tag {ruleid}⟧ as the template comment in base.py documents)
           multi : ⟦multi ⟦sub ⟦tag {ruleid}⟧⟦query {query}⟧⟦norms {normalization}⟧⟧¦⟦sub …⟧⟧
  norms    ⟦n ⟦alias {alias}⟧⟦field {field}⟧⟧¦…
  typing   ⟦tp ⟦tq ⟦tag {ruleid}⟧⟦query {query}⟧⟧¦…⟧
  agg      ⟦at TNAME⟧⟦am M⟧⟦ts {timespan}⟧⟦gb {groupby}⟧⟦field {field}⟧⟦pct {percentile}⟧⟦fields {fields}⟧[⟦refs {referenced_rules}⟧]
  groupby  ⟦by ⟦f {field}⟧¦…⟧   (no group-by: ⟦bynone⟧ or nothing)
  fields   ⟦flds ⟦f {field}⟧¦…⟧
  refs     ⟦r {ruleid}⟧¦…
  cond     ⟦ct TNAME⟧⟦cm M⟧⟦op {op}⟧⟦count {count}⟧⟦field {field}⟧[⟦refs …⟧]
           ⟦ct TNAME⟧⟦cm M⟧⟦ext {extended_condition}⟧[⟦refs …⟧]     with rule references ⟦x {ruleid}⟧
  finalisation: finalize_query_default wraps ⟦fin …⟧; the post-processing item of the pipeline wraps ⟦pp …⟧.
"""
from __future__ import annotations
import ast, re
from . import qsyntax

O, C_, J = "⟦", "⟧", "¦"          # ⟦ ⟧ ¦
TNAMES = ["event_count", "value_count", "temporal", "temporal_ordered", "temporal_extended", "temporal_ordered_extended",
          "value_sum", "value_avg", "value_percentile", "value_median"]
EXT_TNAMES = ("temporal_extended", "temporal_ordered_extended")
BASE_CFG = {"prec": ["not", "and", "or"], "parenthesize": False, "orAsIn": False, "andAsIn": False, "inAllowWild": False,
            "notAsNotEq": False, "sw": True, "ew": True, "ct": True, "wm": False, "cased": "all", "explicitNotExists": False,
            "nativeCidr": True}
DEFAULT_CFG = {
    "prec": ["not", "and", "or"], "parenthesize": False,
    "corr": True, "methods": ["m1", "m2"], "defaultMethod": "m1",
    "tsSeconds": False, "tsMap": None,
    "single": True, "multi": True, "typing": True, "norm": True, "gb": True, "gbNoField": True,
    "refsExpr": True, "refsUsed": True, "fieldsExpr": True, "extRef": True, "finalizeSub": False,
    "qDefault": True, "qTypes": list(TNAMES), "aggTypes": list(TNAMES), "condTypes": list(TNAMES), "m2Missing": [],
    "opMap": "default", "singleTag": "attr",
}


def b(tag, body=""):
    return f"{O}{tag} {body}{C_}" if body != "" else f"{O}{tag}{C_}"


def make_backend(cfg: dict):
    """The backend class for a configuration (keys of DEFAULT_CFG; missing keys take the default)."""
    from sigma.correlations import SigmaCorrelationConditionOperator as OP
    cfg = {**DEFAULT_CFG, **cfg}
    base = qsyntax.make_backend({**BASE_CFG, "prec": tuple(cfg["prec"]), "parenthesize": cfg["parenthesize"]})
    methods = cfg["methods"]

    def per_method(fn, tname=None):
        ms = [m for m in methods if not (m == "m2" and tname in cfg["m2Missing"])]
        return {m: fn(m) for m in ms}
    refs = b("refs", "{referenced_rules}") if cfg["refsUsed"] else ""
    attrs = dict(
        correlation_methods={m: f"method {m}" for m in methods} if cfg["corr"] else None,
        default_correlation_method=cfg["defaultMethod"],
        finalize_correlation_subqueries=cfg["finalizeSub"],
        timespan_seconds=cfg["tsSeconds"], timespan_mapping=cfg["tsMap"],
        correlation_search_single_rule_expression=(
            b("single", (b("tag", "{rule.rule.name}") + b("tagid", "{rule.rule.id}") if cfg["singleTag"] == "attr" else
                         b("tag", "{ruleid}") + b("tagid", "None"))      # {ruleid}: documented for this template too
              + b("query", "{query}") + b("norms", "{normalization}"))
            if cfg["single"] else None),
        correlation_search_multi_rule_expression=b("multi", "{queries}") if cfg["multi"] else None,
        correlation_search_multi_rule_query_expression=(
            b("sub", b("tag", "{ruleid}") + b("query", "{query}") + b("norms", "{normalization}")) if cfg["multi"] else None),
        correlation_search_multi_rule_query_expression_joiner=J if cfg["multi"] else None,
        typing_expression=b("tp", "{queries}") if cfg["typing"] else None,
        typing_rule_query_expression=b("tq", b("tag", "{ruleid}") + b("query", "{query}")) if cfg["typing"] else None,
        typing_rule_query_expression_joiner=J if cfg["typing"] else None,
        correlation_search_field_normalization_expression=b("n", b("alias", "{alias}") + b("field", "{field}")) if cfg["norm"] else None,
        correlation_search_field_normalization_expression_joiner=J if cfg["norm"] else None,
        referenced_rules_expression=per_method(lambda m: b("r", "{ruleid}")) if cfg["refsExpr"] else None,
        referenced_rules_expression_joiner=per_method(lambda m: J) if cfg["refsExpr"] else None,
        groupby_expression=per_method(lambda m: b("by", "{fields}")) if cfg["gb"] else None,
        groupby_field_expression=per_method(lambda m: b("f", "{field}")) if cfg["gb"] else None,
        groupby_field_expression_joiner=per_method(lambda m: J) if cfg["gb"] else None,
        groupby_expression_nofield=per_method(lambda m: b("bynone")) if cfg["gbNoField"] else None,
        correlation_fields_expression=per_method(lambda m: b("flds", "{fields}")) if cfg["fieldsExpr"] else None,
        correlation_fields_field_expression=per_method(lambda m: b("f", "{field}")) if cfg["fieldsExpr"] else None,
        correlation_fields_field_expression_joiner=per_method(lambda m: J) if cfg["fieldsExpr"] else None,
        extended_correlation_condition_rule_reference_expression=per_method(lambda m: b("x", "{ruleid}")) if cfg["extRef"] else None,
        default_correlation_query=(per_method(lambda m: _query_template("default", m)) if cfg["qDefault"] else None),
    )
    if cfg["opMap"] == "names":
        attrs["correlation_condition_mapping"] = {o: o.name.lower() for o in OP}
    for t in TNAMES:
        attrs[f"{t}_correlation_query"] = per_method(lambda m: _query_template(t, m), t) if t in cfg["qTypes"] else None
        attrs[f"{t}_aggregation_expression"] = (per_method(lambda m: (
            b("at", t) + b("am", m) + b("ts", "{timespan}") + b("gb", "{groupby}") + b("field", "{field}") + b("pct", "{percentile}")
            + b("fields", "{fields}") + refs)) if t in cfg["aggTypes"] else None)
        if t in EXT_TNAMES:
            ct = lambda m: b("ct", t) + b("cm", m) + b("ext", "{extended_condition}") + refs
        else:
            ct = lambda m: b("ct", t) + b("cm", m) + b("op", "{op}") + b("count", "{count}") + b("field", "{field}") + refs
        attrs[f"{t}_condition_expression"] = per_method(ct) if t in cfg["condTypes"] else None

    def finalize_query_default(self, rule, query, index, state):
        return b("fin", query)
    attrs["finalize_query_default"] = finalize_query_default
    key = "CB_" + re.sub(r"\W", "_", repr(sorted((k, repr(v)) for k, v in cfg.items())))[-180:]
    return type(key, (base,), attrs)


def _query_template(t, m):
    return b("corr", b("qt", t) + b("m", m) + b("search", "{search}") + b("typing", "{typing}") + b("agg", "{aggregate}")
             + b("cond", "{condition}") + b("ts", "{timespan}") + b("gb", "{groupby}"))


# ------------------------------------------------------------------------------------------- reading back
class Unreadable(Exception):
    pass


class Node:
    __slots__ = ("tag", "kids", "body", "src")

    def __init__(self, tag, kids, body, src):
        self.tag, self.kids, self.body, self.src = tag, kids, body, src

    def nodes(self, tag=None):
        return [k for k in self.kids if isinstance(k, Node) and (tag is None or k.tag == tag)]

    def one(self, tag):
        ns = self.nodes(tag)
        if len(ns) != 1:
            raise Unreadable(f"expected exactly one ⟦{tag}⟧ in ⟦{self.tag}⟧, found {len(ns)}")
        return ns[0]

    def opt(self, tag):
        ns = self.nodes(tag)
        if len(ns) > 1:
            raise Unreadable(f"several ⟦{tag}⟧ in ⟦{self.tag}⟧")
        return ns[0] if ns else None

    def text(self):
        """the body exactly as emitted"""
        return self.body


_TAG = re.compile(r"[a-z0-9_]+")


def parse_brackets(s: str) -> list:
    """text -> list of str | Node"""
    pos = 0

    def seq(depth):
        nonlocal pos
        out, buf = [], []
        while pos < len(s):
            c = s[pos]
            if c == O:
                if buf: out.append("".join(buf)); buf = []
                start = pos
                m = _TAG.match(s, pos + 1)
                if not m:
                    raise Unreadable("bracket without tag")
                pos = m.end()
                if pos < len(s) and s[pos] == " ":
                    pos += 1
                    b0 = pos
                    kids = seq(depth + 1)
                elif pos < len(s) and s[pos] == C_:
                    b0 = pos
                    kids = []
                else:
                    raise Unreadable("malformed bracket head")
                if pos >= len(s) or s[pos] != C_:
                    raise Unreadable("unterminated bracket")
                body = s[b0:pos]
                pos += 1
                out.append(Node(m.group(0), kids, body, s[start:pos]))
            elif c == C_:
                if depth == 0:
                    raise Unreadable("unbalanced closing bracket")
                break
            else:
                buf.append(c); pos += 1
        if buf: out.append("".join(buf))
        return out
    r = seq(0)
    if pos != len(s):
        raise Unreadable("trailing text")
    return r


def _list(node, tag):
    """children ⟦tag …⟧ separated by exactly one `¦` each"""
    items, expect_item = [], True
    for k in node.kids:
        if isinstance(k, Node):
            if not expect_item or k.tag != tag:
                raise Unreadable(f"list of ⟦{tag}⟧ in ⟦{node.tag}⟧: unexpected ⟦{k.tag}⟧")
            items.append(k); expect_item = False
        else:
            if k != J or expect_item:
                raise Unreadable(f"list of ⟦{tag}⟧ in ⟦{node.tag}⟧: unexpected text {k!r}")
            expect_item = True
    if items and expect_item:
        raise Unreadable("dangling joiner")
    return items


def unwrap(text: str):
    """strip the finalisation / post-processing layers of a query text: (raw, finalised, postprocessed)"""
    fin = pp = False
    while True:
        try:
            kids = parse_brackets(text)
        except Unreadable:
            return text, fin, pp
        if len(kids) == 1 and isinstance(kids[0], Node) and kids[0].tag in ("fin", "pp"):
            if kids[0].tag == "fin": fin = True
            else: pp = True
            text = kids[0].text()
        else:
            return text, fin, pp


def _field_text(t):
    """the {field} placeholder of a condition / aggregation template: None, one name, or a Python list repr"""
    if t == "None" or t == "":
        return []
    if t.startswith("["):
        try:
            v = ast.literal_eval(t)
            if isinstance(v, list) and all(isinstance(x, str) for x in v):
                return list(v)
        except Exception:
            pass
        raise Unreadable(f"field list {t!r}")
    return [t]


def _unquote_field(t):
    if len(t) >= 2 and t[0] == "'" and t[-1] == "'":
        ch, j = qsyntax._read_quoted(t, 0, "'")
        if j == len(t):
            return "".join(c for c, _ in ch)
    raise Unreadable(f"group-by field {t!r}")


def _groupby(node):
    """⟦gb …⟧ -> None (no group-by, nothing emitted) | "none" (nofield template) | [fields]"""
    if not node.kids:
        return None
    if node.opt("bynone") is not None:
        return "none"
    return [_unquote_field(f.text()) for f in _list(node.one("by"), "f")]


def _norms(node):
    return [[n.one("alias").text(), n.one("field").text()] for n in _list(node, "n")]


def _refs(node):
    r = node.opt("refs")
    return None if r is None else [x.text() for x in _list(r, "r")]


def _sub(tag, qtext, norms):
    raw, fin, pp = unwrap(qtext)
    return {"tag": tag, "q": raw, "fin": fin, "pp": pp, "norms": norms}


def ext_tokens(node, names):
    """⟦ext …⟧ -> token list for the Lean reader; atoms are indices into `names` (extended on the fly)"""
    toks = []
    for k in node.kids:
        if isinstance(k, Node):
            if k.tag != "x":
                raise Unreadable(f"unexpected ⟦{k.tag}⟧ in extended condition")
            nm = k.text()
            if nm not in names:
                names.append(nm)
            toks.append({"atom": names.index(nm)})
        else:
            i = 0
            while i < len(k):
                if k[i] == " ":
                    i += 1
                elif k[i] in "()":
                    toks.append(k[i]); i += 1
                else:
                    m = re.compile(r"AND|OR|NOT").match(k, i)
                    if not m:
                        raise Unreadable(f"extended condition text {k[i:i+12]!r}")
                    toks.append(m.group(0).lower()); i = m.end()
    return toks


def read_query(text: str, op_table: dict) -> dict:
    """one emitted correlation query -> record"""
    raw, fin, pp = unwrap(text)
    top = parse_brackets(raw)
    if len(top) != 1 or isinstance(top[0], str) or top[0].tag != "corr":
        raise Unreadable("not a single ⟦corr …⟧")
    c = top[0]
    rec = {"fin": fin, "pp": pp, "qt": c.one("qt").text(), "method": c.one("m").text()}
    s = c.one("search")
    if (sg := s.opt("single")) is not None:
        nm, rid = sg.one("tag").text(), sg.one("tagid").text()
        rec["searchKind"] = "single"
        rec["subs"] = [_sub(nm if nm != "None" else rid, sg.one("query").text(), _norms(sg.one("norms")))]
    else:
        rec["searchKind"] = "multi"
        rec["subs"] = [_sub(x.one("tag").text(), x.one("query").text(), _norms(x.one("norms"))) for x in _list(s.one("multi"), "sub")]
    t = c.one("typing")
    if not t.kids:
        rec["typing"] = None
    else:
        rec["typing"] = [_sub(x.one("tag").text(), x.one("query").text(), []) for x in _list(t.one("tp"), "tq")]
    a = c.one("agg")
    rec["at"], rec["am"] = a.one("at").text(), a.one("am").text()
    rec["ts"] = [c.one("ts").text(), a.one("ts").text()]
    rec["gb"] = [_groupby(c.one("gb")), _groupby(a.one("gb"))]
    rec["aggField"] = _field_text(a.one("field").text())
    rec["pct"] = a.one("pct").text()
    fl = a.one("fields")
    rec["fields"] = [_unquote_field(f.text()) for f in _list(fl.one("flds"), "f")] if fl.kids else []
    rec["aggRefs"] = _refs(a)
    cd = c.one("cond")
    rec["ct"], rec["cm"] = cd.one("ct").text(), cd.one("cm").text()
    rec["condRefs"] = _refs(cd)
    if (e := cd.opt("ext")) is not None:
        names = []
        rec["ext"] = {"toks": ext_tokens(e, names), "names": names}
    else:
        optext = cd.one("op").text()
        if optext not in op_table:
            raise Unreadable(f"condition operator {optext!r}")
        rec["cond"] = {"op": op_table[optext], "count": cd.one("count").text(), "field": _field_text(cd.one("field").text())}
    return rec
