"""C04 — encoding modifiers find the payload in encoded data at every alignment.

Three kinds of case, all run against the real modifiers through `SigmaDetectionItem.from_mapping`:
  offset : f|[pre|]base64offset  -> the three produced values; judged by the Lean textbook Base64
           (`b64Spec`): for every context (prefix, suffix) the value for alignment |prefix| % 3 must
           occur in b64Spec(prefix ++ bytes ++ suffix); no value contains '='.
  plain  : f|[pre|]base64        -> must equal b64Spec(bytes)
  wide   : f|wide / utf16be / utf16 -> UTF-8 bytes of the produced string must be the UTF-16 encoding
           of the payload (with BOM FF FE for utf16), or the modifier rejects with a Sigma error.
`bytes` is always the byte string of the value that enters the base64 stage, so chains compose."""
from __future__ import annotations
import itertools, random
from .common import Verdict, cps, outcome_of_exception

ID = "C04"
GEN = ["B64"]
RULE = ("payloads = all strings up to a length bound over {a, -, ä, €, \\\\, =, A, U+1F600} plus seeded random longer "
        "ones; x chains {base64offset, wide|base64offset, utf16be|base64offset, utf16|base64offset, base64, "
        "wide|base64, wide, utf16be, utf16}; x contexts prefix length 0..5 x suffix length 0..5 with surrounding bytes "
        "from {0x00, 0xFF, '=', random}; distinct = distinct (chain, payload); non-trivial = payload of >= 2 bytes"
        "; plus long payloads around 57 / 76 bytes and beyond"
        "; text that is not in Unicode normal form")
ASSUMPTIONS = [
    "Python's base64.b64encode / str.encode / bytes.decode are re-implemented in Lean (b64Spec, utf8enc, utf16) and compared on every case",
    "lone surrogates are never generated",
    "values containing wildcards are rejected by the base64 modifiers and are not generated for the wide modifiers",
]
ALPHA = ["a", "-", "ä", "€", "\\", "=", "A", "\U0001F600", "\\*", "\\?"]
OFFSET_CHAINS = ["base64offset", "wide|base64offset", "utf16be|base64offset", "utf16|base64offset"]
PLAIN_CHAINS = ["base64", "wide|base64", "utf16be|base64"]
WIDE = ["wide", "utf16be", "utf16"]


def contexts(rnd, full):
    fills = [0x00, 0xFF, 0x3D]
    out = []
    for pl in range(6):
        for sl in range(6):
            if not full and (pl + sl) % 2 == 1 and pl > 2:
                continue
            f = rnd.choice(fills + [None])
            p = [rnd.randrange(256) if f is None else f for _ in range(pl)]
            f = rnd.choice(fills + [None])
            s = [rnd.randrange(256) if f is None else f for _ in range(sl)]
            out.append({"p": p, "s": s})
    return out


def gen_cases(tier, seed, gen, effort):
    rnd = random.Random(seed * 104729 + 4)
    thorough = tier == "thorough"
    maxlen = (3 if not thorough else 4) + (1 if effort > 1 else 0)
    payloads = [""]
    for n in range(1, maxlen + 1):
        payloads += ["".join(t) for t in itertools.product(ALPHA, repeat=n)]
    for _ in range((300 if not thorough else 5000) * effort):
        n = rnd.randint(maxlen + 1, 24)
        pool = ALPHA if rnd.random() < 0.5 else ["a", "b", "c", "1", " ", "/", "ä", "€", "Ā", "￿"]
        payloads.append("".join(rnd.choice(pool) for _ in range(n)))
    # long payloads: around the line lengths at which MIME-style encoders wrap (57 / 76 bytes) and well beyond
    for n in [27, 28, 29, 30, 56, 57, 58, 59, 75, 76, 77, 114, 115, 200, 513][: None if thorough else 12]:
        pool = ["a", "b", "/", " ", "1", "ä"] if n % 2 else ["x", "y", ".", "-"]
        payloads.append("".join(rnd.choice(pool) for _ in range(n)))
    # text that is not in Unicode normal form (base letter + combining mark, compatibility characters): encoded as written
    payloads += ["cafe\u0301", "\u212b", "A\u030a", "\u2126m", "x\u0323\u0307y", "\u1100\u1161"]
    cases = []
    for pl in payloads:
        for ch in OFFSET_CHAINS:
            if ch != "base64offset" and len(pl) > 3 and rnd.random() < 0.6:
                continue
            cases.append({"kind": "offset", "chain": ch, "payload": pl, "ctxs": contexts(rnd, thorough or effort > 1)})
        for ch in PLAIN_CHAINS:
            cases.append({"kind": "plain", "chain": ch, "payload": pl})
        for ch in WIDE:
            cases.append({"kind": "wide", "chain": ch, "payload": pl})
    return cases, True


def sigma_plain(s: str) -> str:
    """the characters a Sigma string literal denotes (no unescaped wildcards are generated):
    a backslash escapes a following backslash, '*' or '?' and is literal otherwise"""
    out, i = [], 0
    while i < len(s):
        if s[i] == "\\" and i + 1 < len(s) and s[i + 1] in "\\*?":
            out.append(s[i + 1]); i += 2
        else:
            out.append(s[i]); i += 1
    return "".join(out)


def has_wildcard(s: str) -> bool:
    """does the Sigma string literal contain an unescaped '*' or '?'"""
    i = 0
    while i < len(s):
        if s[i] == "\\" and i + 1 < len(s) and s[i + 1] in "\\*?":
            i += 2
        elif s[i] in "*?":
            return True
        else:
            i += 1
    return False


def _value_strings(v):
    from sigma.types import SigmaExpansion
    if isinstance(v, SigmaExpansion):
        return [str(x) for x in v.values]
    return [str(v)]


def run_impl(case):
    from sigma.rule.detection import SigmaDetectionItem
    chain = case["chain"].split("|")
    try:
        if case["kind"] == "wide":
            it = SigmaDetectionItem.from_mapping("f|" + case["chain"], case["payload"])
            (v,) = it.value
            return {"outcome": "ok", "value": cps("".join(p for p in v.s if isinstance(p, str))), "bytes": list(bytes(v))}
        # value entering the base64 stage
        if len(chain) > 1:
            pre = SigmaDetectionItem.from_mapping("f|" + "|".join(chain[:-1]), case["payload"])
            (pv,) = pre.value
            inbytes = list(bytes(pv))
        else:
            inbytes = list(sigma_plain(case["payload"]).encode("utf-8"))
        it = SigmaDetectionItem.from_mapping("f|" + case["chain"], case["payload"])
        (v,) = it.value
        return {"outcome": "ok", "values": [cps(s) for s in _value_strings(v)], "inbytes": inbytes}
    except Exception as e:
        return {"outcome": outcome_of_exception(e), "msg": str(e)[:100]}


def make_request(case, impl, gen):
    if impl["outcome"] != "ok":
        return {"op": "ping"}
    if case["kind"] == "wide":
        return {"op": "wide.case", "s": cps(sigma_plain(case["payload"])), "be": case["chain"] == "utf16be", "impl": impl["value"]}
    r = {"op": "b64.case", "v": impl["inbytes"], "ctxs": case.get("ctxs", [])}
    g = gen.get("B64")
    if g:
        r["tables"] = {"starts": g["starts"], "cuts": g["cuts"]}
        if not g["lenIsBytes"]:
            r["lenV"] = len(sigma_plain(case["payload"]))
    if case["kind"] == "offset":
        r["impl3"] = impl["values"]
    return r


def judge(case, impl, reply):
    io = impl["outcome"]
    key = (case["chain"], case["payload"])
    nb = len(case["payload"].encode("utf-8", "surrogatepass"))
    nt = nb >= 2
    tags = (f"kind:{case['kind']}", f"chain:{case['chain']}", f"len%3:{nb % 3}",
            "ascii" if case["payload"].isascii() else "non-ascii", f"impl:{io.split(':')[0]}")
    if has_wildcard(case["payload"]):
        # payloads are wildcard-free by the property's quantifier; the base64 modifiers must reject them
        if case["kind"] != "wide" and io == "ok":
            return Verdict("violation", f"f|{case['chain']} accepted a value with wildcards: {case['payload']!r}", nt, key, tags=tags)
        return Verdict("ok", "", nt, key, tags=tags + ("unjudged:wildcard",))
    if io.startswith("other:"):
        return Verdict("violation", f"non-Sigma exception {io} for f|{case['chain']}: {case['payload']!r}", nt, key, tags=tags)
    if io.startswith("sigma:"):
        # rejecting is the admissible alternative; but a plain base64 modifier has no reason to reject
        if case["chain"] in ("base64", "base64offset"):
            return Verdict("violation", f"f|{case['chain']} rejects plain payload {case['payload']!r}: {impl.get('msg')}", nt, key, tags=tags)
        return Verdict("ok", "", nt, key, tags=tags)
    if case["kind"] == "wide":
        u16 = reply["utf16"]
        if u16 is None:
            return Verdict("violation", f"payload has no UTF-16 encoding but f|{case['chain']} produced a value", nt, key, tags=tags)
        expect = ([0xFF, 0xFE] if case["chain"] == "utf16" else []) + u16
        if impl["bytes"] != expect:
            fid = "D18" if case["chain"] == "utf16" and impl["bytes"] == [0xEF, 0xBB, 0xBF] + u16 else None
            return Verdict("violation", f"f|{case['chain']}: {case['payload']!r} -> bytes {bytes(impl['bytes'])!r}, UTF-16 encoding is {bytes(expect)!r}",
                           nt, key, finding=fid, tags=tags)
        st = "ok"
        if reply["model"] is None or reply["model"] != impl["value"]:
            st = "drift"
        return Verdict(st, "model wideTrick differs" if st == "drift" else "", nt, key, tags=tags)
    if case["kind"] == "plain":
        if impl["values"] != [reply["spec"]]:
            return Verdict("violation", f"f|{case['chain']}: {case['payload']!r} -> {''.join(map(chr, impl['values'][0]))!r} is not the Base64 text of its bytes", nt, key, tags=tags)
        return Verdict("ok", "", nt, key, tags=tags)
    # offset
    if len(impl["values"]) != 3:
        return Verdict("violation", f"f|{case['chain']} produced {len(impl['values'])} values", nt, key, tags=tags)
    if not reply["noPad"]:
        return Verdict("violation", f"f|{case['chain']}: {case['payload']!r}: a produced value contains '=' (depends on what follows the payload)", nt, key, tags=tags)
    for ctx, ok in zip(case["ctxs"], reply["results"]):
        if ok is False:
            i = len(ctx["p"]) % 3
            return Verdict("violation", (f"f|{case['chain']}: {case['payload']!r}: value #{i} {''.join(map(chr, impl['values'][i]))!r} does not occur in "
                                         f"base64(prefix {ctx['p']} + payload + suffix {ctx['s']})"), nt, key, tags=tags)
    if impl["values"] != reply["model3"]:
        return Verdict("drift", f"model values {[''.join(map(chr, v)) for v in reply['model3']]} differ", nt, key, tags=tags)
    return Verdict("ok", "", nt, key, tags=tags)


def shrink(case, v, evaluate):
    cur, curv = case, v
    improved = True
    while improved and len(cur["payload"]) > 0:
        improved = False
        cands = [dict(cur, payload=cur["payload"][:i] + cur["payload"][i + 1:]) for i in range(len(cur["payload"]))]
        for c, i, r, vv in evaluate(cands):
            if vv.status == "violation" and vv.finding == curv.finding:
                cur, curv, improved = c, vv, True
                break
    return cur, curv
