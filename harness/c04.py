"""C04 — encoding modifiers find the payload in encoded data at every alignment.

Three kinds of case, all run against the real modifiers through `SigmaDetectionItem.from_mapping`:
  offset : f|[pre|]base64offset  -> the three produced values; judged by the Lean textbook Base64
           (`b64Spec`): for every context (prefix, suffix) the value for alignment |prefix| % 3 must
           occur in b64Spec(prefix ++ bytes ++ suffix); no value contains '='.
  plain  : f|[pre|]base64        -> must equal b64Spec(bytes)
  wide   : f|wide / utf16be / utf16 -> UTF-8 bytes of the produced string must be the UTF-16 encoding
           of the payload (with BOM FF FE for utf16), or the modifier rejects with a Sigma error.
`bytes` is always the byte string of the value that enters the base64 stage, so chains compose.

A produced value must be a plain string: a wide/utf16* value that contains a wildcard part although the
payload has none does not "have the bytes" of the UTF-16 encoding (it matches other byte strings too).
The payload reaches the modifiers by one of the entry points `VIAS` (case field `via`, default "mapping"):
single value / list element / keyword item of `from_mapping`, a rule built with `SigmaRule.from_dict` or
`from_yaml` (payload as a fully escaped double-quoted scalar), or the modifier classes handed to the `SigmaDetectionItem`
constructor; the expected value depends on the payload alone, so every entry point is judged alike."""
from __future__ import annotations
import itertools, random
from .common import Verdict, cps, outcome_of_exception

ID = "C04"
GEN = ["B64"]
RULE = ("payloads = all strings up to a length bound over {a, -, ä, €, \\\\, =, A, U+1F600} plus seeded random longer "
        "ones; x chains {base64offset, wide|base64offset, utf16be|base64offset, utf16|base64offset, base64, "
        "wide|base64, wide, utf16be, utf16}; x contexts prefix length 0..5 x suffix length 0..5 with surrounding bytes "
        "from {0x00, 0xFF, '=', random}; distinct = distinct (chain, payload); non-trivial = payload of >= 2 bytes"
        "; plus long payloads around 57 / 76 bytes and beyond"
        "; text that is not in Unicode normal form"
        "; chain utf16|base64; wide/utf16* values must not contain wildcard parts"
        "; boundary stream: payloads that begin / end with / contain line breaks, blanks, control and format "
        "characters x all chains x entry points {from_mapping single, list element, keyword item, SigmaRule.from_dict, "
        "from_yaml, modifier classes on SigmaDetectionItem}"
        "; UTF-16 byte stream: characters whose UTF-16 code unit bytes are 2A / 3F / 5C ('*', '?', backslash) in "
        "either byte order, alone and mixed with escaped wildcards")
ASSUMPTIONS = [
    "Python's base64.b64encode / str.encode / bytes.decode are re-implemented in Lean (b64Spec, utf8enc, utf16) and compared on every case",
    "lone surrogates are never generated",
    "values containing wildcards are rejected by the base64 modifiers and are not generated for the wide modifiers",
]
ALPHA = ["a", "-", "ä", "€", "\\", "=", "A", "\U0001F600", "\\*", "\\?"]
OFFSET_CHAINS = ["base64offset", "wide|base64offset", "utf16be|base64offset", "utf16|base64offset"]
PLAIN_CHAINS = ["base64", "wide|base64", "utf16be|base64", "utf16|base64"]
WIDE = ["wide", "utf16be", "utf16"]
VIAS = ["mapping", "list", "keyword", "rule", "yaml", "direct"]
# characters that text clean-up (strip, splitlines, YAML folding, C strings) treats specially; a payload is encoded as written
BOUNDARY = [" ", "\t", "\n", "\r", "\r\n", "\n\n", "\x0b", "\x0c", "\x00", "\x1f", "\x7f", "\x85", "\xa0", "\u2028",
            "\u3000", "\ufeff", "'", '"']
BOUNDARY_CORES = ["", "a", "ab", "echo 1", "-enc ", "\u00e4\u20ac", "x\\*"]
# characters whose UTF-16 code unit consists of the bytes of '*', '?' or '\\' (high or low byte, hence in LE or BE order)
UTF16_SENSITIVE = ["\u012a", "\u2a01", "\u013f", "\u3f01", "\u015c", "\u5c01", "\u5c5c", "\u5c2a", "\u2a5c", "\u5c3f",
                   "\u3f5c", "\u2a2a", "\u3f3f", "\u2a3f", "\u3f2a"]


def contexts(rnd, full):
    fills = [0x00, 0xFF, 0x3D]
    out = []
    for pl in range(6):
        for sl in range(6):
            if not full and (pl + sl) % 2 == 1 and pl > 2:
                continue
            f = rnd.choice(fills + [None])
            p = [rnd.randrange(256) if f is None else f for _ in range(pl)]
            f = rnd.choice(fills + [None])
            s = [rnd.randrange(256) if f is None else f for _ in range(sl)]
            out.append({"p": p, "s": s})
    return out


def gen_cases(tier, seed, gen, effort):
    rnd = random.Random(seed * 104729 + 4)
    thorough = tier == "thorough"
    maxlen = (3 if not thorough else 4) + (1 if effort > 1 else 0)
    payloads = [""]
    for n in range(1, maxlen + 1):
        payloads += ["".join(t) for t in itertools.product(ALPHA, repeat=n)]
    for _ in range((300 if not thorough else 5000) * effort):
        n = rnd.randint(maxlen + 1, 24)
        pool = ALPHA if rnd.random() < 0.5 else ["a", "b", "c", "1", " ", "/", "ä", "€", "Ā", "￿"]
        payloads.append("".join(rnd.choice(pool) for _ in range(n)))
    # long payloads: around the line lengths at which MIME-style encoders wrap (57 / 76 bytes) and well beyond
    for n in [27, 28, 29, 30, 56, 57, 58, 59, 75, 76, 77, 114, 115, 200, 513][: None if thorough else 12]:
        pool = ["a", "b", "/", " ", "1", "ä"] if n % 2 else ["x", "y", ".", "-"]
        payloads.append("".join(rnd.choice(pool) for _ in range(n)))
    # text that is not in Unicode normal form (base letter + combining mark, compatibility characters): encoded as written
    payloads += ["cafe\u0301", "\u212b", "A\u030a", "\u2126m", "x\u0323\u0307y", "\u1100\u1161"]
    cases = []
    for pl in payloads:
        for ch in OFFSET_CHAINS:
            if ch != "base64offset" and len(pl) > 3 and rnd.random() < 0.6:
                continue
            cases.append({"kind": "offset", "chain": ch, "payload": pl, "ctxs": contexts(rnd, thorough or effort > 1)})
        for ch in PLAIN_CHAINS:
            cases.append({"kind": "plain", "chain": ch, "payload": pl})
        for ch in WIDE:
            cases.append({"kind": "wide", "chain": ch, "payload": pl})
    # boundary stream: the characters of BOUNDARY at the end, at the start, at both ends and inside the payload,
    # every chain, the entry points in rotation (each (payload, chain) by two of them)
    k = 0
    for core in BOUNDARY_CORES:
        for b in BOUNDARY:
            for pl in dict.fromkeys([core + b, b + core, b + core + b, core + b + core]):
                for kind, ch in _all_chains():
                    for via in (VIAS[k % len(VIAS)], VIAS[(k + 1 + (k // len(VIAS)) % (len(VIAS) - 1)) % len(VIAS)]):
                        c = {"kind": kind, "chain": ch, "payload": pl, "via": via}
                        if kind == "offset":
                            c["ctxs"] = contexts(rnd, thorough or effort > 1)
                        cases.append(c)
                    k += 1
    # every entry point on ordinary payloads as well
    for pl in ["a", "ab", "abc", "whoami", "\u00e4b", "a\\*b", "C:\\Temp\\"] + [rnd.choice(payloads) for _ in range(40 * effort)]:
        for kind, ch in _all_chains():
            for via in VIAS[1:]:
                c = {"kind": kind, "chain": ch, "payload": pl, "via": via}
                if kind == "offset":
                    c["ctxs"] = contexts(rnd, False)
                cases.append(c)
    # UTF-16 byte stream
    sens = list(UTF16_SENSITIVE)
    sens += [x + y for x in UTF16_SENSITIVE[:8] for y in ("a", "\\*", "\\?", "\\\\")] + ["a" + x + "b" for x in UTF16_SENSITIVE]
    for _ in range((60 if not thorough else 600) * effort):
        sens.append("".join(rnd.choice(UTF16_SENSITIVE + ["a", "\\*", "\\?", "\\\\", "\u00e4"]) for _ in range(rnd.randint(2, 6))))
    for pl in dict.fromkeys(sens):
        for kind, ch in _all_chains():
            c = {"kind": kind, "chain": ch, "payload": pl}
            if kind == "offset":
                c["ctxs"] = contexts(rnd, False)
            cases.append(c)
    return cases, True


def _all_chains():
    return [("offset", ch) for ch in OFFSET_CHAINS] + [("plain", ch) for ch in PLAIN_CHAINS] + [("wide", ch) for ch in WIDE]


def sigma_plain(s: str) -> str:
    """the characters a Sigma string literal denotes (no unescaped wildcards are generated):
    a backslash escapes a following backslash, '*' or '?' and is literal otherwise"""
    out, i = [], 0
    while i < len(s):
        if s[i] == "\\" and i + 1 < len(s) and s[i + 1] in "\\*?":
            out.append(s[i + 1]); i += 2
        else:
            out.append(s[i]); i += 1
    return "".join(out)


def has_wildcard(s: str) -> bool:
    """does the Sigma string literal contain an unescaped '*' or '?'"""
    i = 0
    while i < len(s):
        if s[i] == "\\" and i + 1 < len(s) and s[i + 1] in "\\*?":
            i += 2
        elif s[i] in "*?":
            return True
        else:
            i += 1
    return False


def _value_strings(v):
    from sigma.types import SigmaExpansion
    if isinstance(v, SigmaExpansion):
        return [str(x) for x in v.values]
    return [str(v)]


YAML_RULE = "title: t\nlogsource:\n    category: test\ndetection:\n    sel:\n        \"f|%s\": %s\n    condition: sel\n"


def _yaml_scalar(s: str) -> str:
    """the string as a YAML double-quoted scalar in which everything but plain printable ASCII is written as an escape,
    so that the YAML reader (line folding, non-printable characters) returns exactly `s`"""
    out = []
    for c in s:
        o = ord(c)
        if 0x20 <= o < 0x7F and c not in '"\\':
            out.append(c)
        elif o < 0x100:
            out.append("\\x%02x" % o)
        elif o < 0x10000:
            out.append("\\u%04x" % o)
        else:
            out.append("\\U%08x" % o)
    return '"' + "".join(out) + '"'


def _produced(chain: str, payload: str, via: str):
    """the value the modifier chain produces for the payload, the payload entering by the entry point `via`"""
    from sigma.rule.detection import SigmaDetectionItem
    if via == "mapping":
        (v,) = SigmaDetectionItem.from_mapping("f|" + chain, payload).value
    elif via == "list":
        _, v = SigmaDetectionItem.from_mapping("f|" + chain, ["zz", payload]).value
    elif via == "keyword":
        (v,) = SigmaDetectionItem.from_mapping("|" + chain, payload).value
    elif via in ("rule", "yaml"):
        from sigma.rule import SigmaRule
        d = {"title": "t", "logsource": {"category": "test"}, "detection": {"sel": {"f|" + chain: payload}, "condition": "sel"}}
        if via == "yaml":
            rule = SigmaRule.from_yaml(YAML_RULE % (chain, _yaml_scalar(payload)))
        else:
            rule = SigmaRule.from_dict(d)
        (it,) = rule.detection.detections["sel"].detection_items
        (v,) = it.value
    elif via == "direct":
        from sigma.modifiers import modifier_mapping
        from sigma.types import SigmaString
        (v,) = SigmaDetectionItem("f", [modifier_mapping[m] for m in chain.split("|")], [SigmaString(payload)]).value
    else:
        raise ValueError(via)
    return v


def run_impl(case):
    chain = case["chain"].split("|")
    via = case.get("via", "mapping")
    try:
        if case["kind"] == "wide":
            v = _produced(case["chain"], case["payload"], via)
            return {"outcome": "ok", "value": cps("".join(p for p in v.s if isinstance(p, str))), "bytes": list(bytes(v)),
                    "special": sum(1 for p in v.s if not isinstance(p, str))}
        # value entering the base64 stage
        if len(chain) > 1:
            inbytes = list(bytes(_produced("|".join(chain[:-1]), case["payload"], via)))
        else:
            inbytes = list(sigma_plain(case["payload"]).encode("utf-8"))
        v = _produced(case["chain"], case["payload"], via)
        return {"outcome": "ok", "values": [cps(s) for s in _value_strings(v)], "inbytes": inbytes}
    except Exception as e:
        return {"outcome": outcome_of_exception(e), "msg": str(e)[:100]}


def make_request(case, impl, gen):
    if impl["outcome"] != "ok":
        return {"op": "ping"}
    if case["kind"] == "wide":
        return {"op": "wide.case", "s": cps(sigma_plain(case["payload"])), "be": case["chain"] == "utf16be", "impl": impl["value"]}
    r = {"op": "b64.case", "v": impl["inbytes"], "ctxs": case.get("ctxs", [])}
    g = gen.get("B64")
    if g:
        r["tables"] = {"starts": g["starts"], "cuts": g["cuts"]}
        if not g["lenIsBytes"]:
            r["lenV"] = len(sigma_plain(case["payload"]))
    if case["kind"] == "offset":
        r["impl3"] = impl["values"]
    return r


def judge(case, impl, reply):
    io = impl["outcome"]
    via = case.get("via", "mapping")
    key = (case["chain"], case["payload"]) if via == "mapping" else (case["chain"], case["payload"], via)
    fc = "f|" + case["chain"] + ("" if via == "mapping" else f" [entry point: {via}]")
    nb = len(case["payload"].encode("utf-8", "surrogatepass"))
    nt = nb >= 2
    tags = (f"kind:{case['kind']}", f"chain:{case['chain']}", f"len%3:{nb % 3}",
            "ascii" if case["payload"].isascii() else "non-ascii", f"impl:{io.split(':')[0]}", f"via:{via}")
    if has_wildcard(case["payload"]):
        # payloads are wildcard-free by the property's quantifier; the base64 modifiers must reject them
        if case["kind"] != "wide" and io == "ok":
            return Verdict("violation", f"{fc} accepted a value with wildcards: {case['payload']!r}", nt, key, tags=tags)
        return Verdict("ok", "", nt, key, tags=tags + ("unjudged:wildcard",))
    if io.startswith("other:"):
        return Verdict("violation", f"non-Sigma exception {io} for {fc}: {case['payload']!r}", nt, key, tags=tags)
    if io.startswith("sigma:"):
        # rejecting is the admissible alternative; but a plain base64 modifier has no reason to reject
        if case["chain"] in ("base64", "base64offset"):
            return Verdict("violation", f"{fc} rejects plain payload {case['payload']!r}: {impl.get('msg')}", nt, key, tags=tags)
        return Verdict("ok", "", nt, key, tags=tags)
    if case["kind"] == "wide":
        u16 = reply["utf16"]
        if u16 is None:
            return Verdict("violation", f"payload has no UTF-16 encoding but {fc} produced a value", nt, key, tags=tags)
        expect = ([0xFF, 0xFE] if case["chain"] == "utf16" else []) + u16
        if impl.get("special"):
            return Verdict("violation", (f"{fc}: {case['payload']!r} (no wildcard in the payload) -> value with {impl['special']} wildcard part(s): "
                                         f"it matches byte strings other than the UTF-16 encoding {bytes(expect)!r}"), nt, key, tags=tags)
        if impl["bytes"] != expect:
            fid = "D18" if case["chain"] == "utf16" and impl["bytes"] == [0xEF, 0xBB, 0xBF] + u16 else None
            return Verdict("violation", f"{fc}: {case['payload']!r} -> bytes {bytes(impl['bytes'])!r}, UTF-16 encoding is {bytes(expect)!r}",
                           nt, key, finding=fid, tags=tags)
        st = "ok"
        if reply["model"] is None or reply["model"] != impl["value"]:
            st = "drift"
        return Verdict(st, "model wideTrick differs" if st == "drift" else "", nt, key, tags=tags)
    if case["kind"] == "plain":
        if impl["values"] != [reply["spec"]]:
            return Verdict("violation", f"{fc}: {case['payload']!r} -> {''.join(map(chr, impl['values'][0]))!r} is not the Base64 text of its bytes", nt, key, tags=tags)
        return Verdict("ok", "", nt, key, tags=tags)
    # offset
    if len(impl["values"]) != 3:
        return Verdict("violation", f"{fc} produced {len(impl['values'])} values", nt, key, tags=tags)
    if not reply["noPad"]:
        return Verdict("violation", f"{fc}: {case['payload']!r}: a produced value contains '=' (depends on what follows the payload)", nt, key, tags=tags)
    for ctx, ok in zip(case["ctxs"], reply["results"]):
        if ok is False:
            i = len(ctx["p"]) % 3
            return Verdict("violation", (f"{fc}: {case['payload']!r}: value #{i} {''.join(map(chr, impl['values'][i]))!r} does not occur in "
                                         f"base64(prefix {ctx['p']} + payload + suffix {ctx['s']})"), nt, key, tags=tags)
    if impl["values"] != reply["model3"]:
        return Verdict("drift", f"model values {[''.join(map(chr, v)) for v in reply['model3']]} differ", nt, key, tags=tags)
    return Verdict("ok", "", nt, key, tags=tags)


def shrink(case, v, evaluate):
    cur, curv = case, v
    improved = True
    while improved and len(cur["payload"]) > 0:
        improved = False
        cands = [dict(cur, payload=cur["payload"][:i] + cur["payload"][i + 1:]) for i in range(len(cur["payload"]))]
        for c, i, r, vv in evaluate(cands):
            if vv.status == "violation" and vv.finding == curv.finding:
                cur, curv, improved = c, vv, True
                break
    return cur, curv
