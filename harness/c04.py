"""C04 — encoding modifiers find the payload in encoded data at every alignment.

Three kinds of case, all run against the real modifiers through `SigmaDetectionItem.from_mapping`:
  offset : f|[pre|]base64offset  -> the three produced values; judged by the Lean textbook Base64
           (`b64Spec`): for every context (prefix, suffix) the value for alignment |prefix| % 3 must
           occur in b64Spec(prefix ++ bytes ++ suffix); no value contains '='.
  plain  : f|[pre|]base64        -> must equal b64Spec(bytes)
  wide   : f|wide / utf16be / utf16 -> UTF-8 bytes of the produced string must be the UTF-16 encoding
           of the payload (with BOM FF FE for utf16), or the modifier rejects with a Sigma error.
`bytes` is always the byte string of the value that enters the base64 stage, so chains compose.

A produced value must be a plain string: a wide/utf16* value that contains a wildcard part although the
payload has none does not "have the bytes" of the UTF-16 encoding (it matches other byte strings too).
The payload reaches the modifiers by one of the entry points `VIAS` (case field `via`, default "mapping"):
single value / list element / keyword item of `from_mapping`, a rule built with `SigmaRule.from_dict` or
`from_yaml` (payload as a fully escaped double-quoted scalar), or the modifier classes handed to the `SigmaDetectionItem`
constructor; the expected value depends on the payload alone, so every entry point is judged alike.

Spellings: the property names the little-endian modifier `wide/utf16le`; whatever spelling of the encoding modifiers the
library resolves (the alias `utf16le`, letter-case and '-' / '_' variants of all six names) must either be rejected or
produce the values of the encoding the name denotes (`meaning`), alone and in front of / as base64 and base64offset.

Value lists: the property holds for every payload, also when it is one of several payloads of one detection item
(`via` = one of MULTI_VIAS, case fields `list`, `idx`).  Lists of payloads that are related to each other (equal up to
letter case / Unicode normal form / surrounding blanks, repeated, prefixes of each other, digit strings) and random
lists are sent through from_mapping (field and keyword), SigmaRule.from_dict and from_yaml; for every element, one of
the values produced for the *list* must be its encoding (wide, base64: judged against the Lean `utf16` / `b64Spec`)
resp. for every context one of the produced base64offset values must occur in b64Spec(prefix ++ bytes ++ suffix)
(driver field `flat` -> `flatResults`, theorem `b64offset_list_complete`).  When the list keeps one value per payload in
order, the value at the payload's position is judged exactly like a single value as well."""
from __future__ import annotations
import itertools, random
from .common import Verdict, cps, outcome_of_exception

ID = "C04"
GEN = ["B64"]
RULE = ("payloads = all strings up to a length bound over {a, -, ä, €, \\\\, =, A, U+1F600} plus seeded random longer "
        "ones; x chains {base64offset, wide|base64offset, utf16be|base64offset, utf16|base64offset, base64, "
        "wide|base64, wide, utf16be, utf16}; x contexts prefix length 0..5 x suffix length 0..5 with surrounding bytes "
        "from {0x00, 0xFF, '=', random}; distinct = distinct (chain, payload); non-trivial = payload of >= 2 bytes"
        "; plus long payloads around 57 / 76 bytes and beyond"
        "; text that is not in Unicode normal form"
        "; chain utf16|base64; wide/utf16* values must not contain wildcard parts"
        "; boundary stream: payloads that begin / end with / contain line breaks, blanks, control and format "
        "characters x all chains x entry points {from_mapping single, list element, keyword item, SigmaRule.from_dict, "
        "from_yaml, modifier classes on SigmaDetectionItem}"
        "; UTF-16 byte stream: characters whose UTF-16 code unit bytes are 2A / 3F / 5C ('*', '?', backslash) in "
        "either byte order, alone and mixed with escaped wildcards"
        "; spelling stream: the alias utf16le and letter-case / '-' / '_' variants of base64, base64offset, wide, utf16le, "
        "utf16be, utf16, alone and chained with base64 / base64offset, x payloads x name-resolving entry points: "
        "rejected or the values of the encoding the name denotes"
        "; value-list stream: lists of 2..5 payloads (case variants, exact repeats, normal-form variants, blank-padded, "
        "prefixes of each other, digit strings, random) x all chains x entry points {from_mapping field, keyword, "
        "SigmaRule.from_dict, from_yaml}: every element of the list is covered by the values produced for the list")
ASSUMPTIONS = [
    "Python's base64.b64encode / str.encode / bytes.decode are re-implemented in Lean (b64Spec, utf8enc, utf16) and compared on every case",
    "lone surrogates are never generated",
    "values containing wildcards are rejected by the base64 modifiers and are not generated for the wide modifiers",
    "a modifier name that differs from base64, base64offset, wide, utf16le, utf16be, utf16 only in letter case or '-' / '_' denotes that encoding (it may be rejected)",
    "a value list is judged by coverage: every element needs its encoding among the values produced for the list; order and repeats are not judged",
]
ALPHA = ["a", "-", "ä", "€", "\\", "=", "A", "\U0001F600", "\\*", "\\?"]
OFFSET_CHAINS = ["base64offset", "wide|base64offset", "utf16be|base64offset", "utf16|base64offset"]
PLAIN_CHAINS = ["base64", "wide|base64", "utf16be|base64", "utf16|base64"]
WIDE = ["wide", "utf16be", "utf16"]
VIAS = ["mapping", "list", "keyword", "rule", "yaml", "direct"]
# a value list of several payloads (case fields `list`, `idx`) entering by from_mapping (field / keyword), from_dict, from_yaml
MULTI_VIAS = ["multi", "multi-keyword", "multi-rule", "multi-yaml"]
# the encoding each modifier name of the property denotes ("wide/utf16le" is one modifier with two spellings)
MEANING = {"base64": "base64", "base64offset": "base64offset", "wide": "wide", "utf16le": "wide", "utf16be": "utf16be",
           "utf16": "utf16"}
# characters that text clean-up (strip, splitlines, YAML folding, C strings) treats specially; a payload is encoded as written
BOUNDARY = [" ", "\t", "\n", "\r", "\r\n", "\n\n", "\x0b", "\x0c", "\x00", "\x1f", "\x7f", "\x85", "\xa0", "\u2028",
            "\u3000", "\ufeff", "'", '"']
BOUNDARY_CORES = ["", "a", "ab", "echo 1", "-enc ", "\u00e4\u20ac", "x\\*"]
# characters whose UTF-16 code unit consists of the bytes of '*', '?' or '\\' (high or low byte, hence in LE or BE order)
UTF16_SENSITIVE = ["\u012a", "\u2a01", "\u013f", "\u3f01", "\u015c", "\u5c01", "\u5c5c", "\u5c2a", "\u2a5c", "\u5c3f",
                   "\u3f5c", "\u2a2a", "\u3f3f", "\u2a3f", "\u3f2a"]


def contexts(rnd, full):
    fills = [0x00, 0xFF, 0x3D]
    out = []
    for pl in range(6):
        for sl in range(6):
            if not full and (pl + sl) % 2 == 1 and pl > 2:
                continue
            f = rnd.choice(fills + [None])
            p = [rnd.randrange(256) if f is None else f for _ in range(pl)]
            f = rnd.choice(fills + [None])
            s = [rnd.randrange(256) if f is None else f for _ in range(sl)]
            out.append({"p": p, "s": s})
    return out


def gen_cases(tier, seed, gen, effort):
    rnd = random.Random(seed * 104729 + 4)
    thorough = tier == "thorough"
    maxlen = (3 if not thorough else 4) + (1 if effort > 1 else 0)
    payloads = [""]
    for n in range(1, maxlen + 1):
        payloads += ["".join(t) for t in itertools.product(ALPHA, repeat=n)]
    for _ in range((300 if not thorough else 5000) * effort):
        n = rnd.randint(maxlen + 1, 24)
        pool = ALPHA if rnd.random() < 0.5 else ["a", "b", "c", "1", " ", "/", "ä", "€", "Ā", "￿"]
        payloads.append("".join(rnd.choice(pool) for _ in range(n)))
    # long payloads: around the line lengths at which MIME-style encoders wrap (57 / 76 bytes) and well beyond
    for n in [27, 28, 29, 30, 56, 57, 58, 59, 75, 76, 77, 114, 115, 200, 513][: None if thorough else 12]:
        pool = ["a", "b", "/", " ", "1", "ä"] if n % 2 else ["x", "y", ".", "-"]
        payloads.append("".join(rnd.choice(pool) for _ in range(n)))
    # text that is not in Unicode normal form (base letter + combining mark, compatibility characters): encoded as written
    payloads += ["cafe\u0301", "\u212b", "A\u030a", "\u2126m", "x\u0323\u0307y", "\u1100\u1161"]
    cases = []
    for pl in payloads:
        for ch in OFFSET_CHAINS:
            if ch != "base64offset" and len(pl) > 3 and rnd.random() < 0.6:
                continue
            cases.append({"kind": "offset", "chain": ch, "payload": pl, "ctxs": contexts(rnd, thorough or effort > 1)})
        for ch in PLAIN_CHAINS:
            cases.append({"kind": "plain", "chain": ch, "payload": pl})
        for ch in WIDE:
            cases.append({"kind": "wide", "chain": ch, "payload": pl})
    # boundary stream: the characters of BOUNDARY at the end, at the start, at both ends and inside the payload,
    # every chain, the entry points in rotation (each (payload, chain) by two of them)
    k = 0
    for core in BOUNDARY_CORES:
        for b in BOUNDARY:
            for pl in dict.fromkeys([core + b, b + core, b + core + b, core + b + core]):
                for kind, ch in _all_chains():
                    for via in (VIAS[k % len(VIAS)], VIAS[(k + 1 + (k // len(VIAS)) % (len(VIAS) - 1)) % len(VIAS)]):
                        c = {"kind": kind, "chain": ch, "payload": pl, "via": via}
                        if kind == "offset":
                            c["ctxs"] = contexts(rnd, thorough or effort > 1)
                        cases.append(c)
                    k += 1
    # every entry point on ordinary payloads as well
    for pl in ["a", "ab", "abc", "whoami", "\u00e4b", "a\\*b", "C:\\Temp\\"] + [rnd.choice(payloads) for _ in range(40 * effort)]:
        for kind, ch in _all_chains():
            for via in VIAS[1:]:
                c = {"kind": kind, "chain": ch, "payload": pl, "via": via}
                if kind == "offset":
                    c["ctxs"] = contexts(rnd, False)
                cases.append(c)
    # UTF-16 byte stream
    sens = list(UTF16_SENSITIVE)
    sens += [x + y for x in UTF16_SENSITIVE[:8] for y in ("a", "\\*", "\\?", "\\\\")] + ["a" + x + "b" for x in UTF16_SENSITIVE]
    for _ in range((60 if not thorough else 600) * effort):
        sens.append("".join(rnd.choice(UTF16_SENSITIVE + ["a", "\\*", "\\?", "\\\\", "\u00e4"]) for _ in range(rnd.randint(2, 6))))
    for pl in dict.fromkeys(sens):
        for kind, ch in _all_chains():
            c = {"kind": kind, "chain": ch, "payload": pl}
            if kind == "offset":
                c["ctxs"] = contexts(rnd, False)
            cases.append(c)
    # spelling stream: other spellings of the modifier names (the alias of the property text on more payloads)
    name_vias = [v for v in VIAS if v != "direct"]      # "direct" hands classes over, no name is resolved
    sp_payloads = ["", "a", "ab", "abc", "whoami", "\u00e4b", "\u20ac", "\U0001F600x", "C:\\Temp\\", "a\\*b", " a\n"]
    sp_payloads += [rnd.choice(payloads) for _ in range(12 * effort)]
    k = 0
    for sp in spellings():
        pls = sp_payloads if sp == "utf16le" else sp_payloads[:6] + sp_payloads[-3:]
        for kind, ch in spelled_chains(sp):
            for pl in dict.fromkeys(pls):
                for via in (name_vias if sp == "utf16le" else ["mapping", name_vias[1 + k % (len(name_vias) - 1)]]):
                    c = {"kind": kind, "chain": ch, "payload": pl, "via": via}
                    if kind == "offset":
                        c["ctxs"] = contexts(rnd, False)
                    cases.append(c)
                k += 1
    # value-list stream: every element of a list of payloads, every chain, the list entry points in rotation
    k = 0
    for lst in related_lists(rnd, payloads):
        for kind, ch in _all_chains():
            if k % 3 and ch.split("|")[0] in ("utf16be", "utf16"):      # the three UTF-16 variants share the list handling
                k += 1
                continue
            via = MULTI_VIAS[(k // 2) % len(MULTI_VIAS)] if k % 2 else "multi"
            for idx in range(len(lst)):
                c = {"kind": kind, "chain": ch, "payload": lst[idx], "via": via, "list": lst, "idx": idx}
                if kind == "offset":
                    c["ctxs"] = contexts(rnd, True)
                cases.append(c)
            k += 1
    return cases, True


def _all_chains():
    return [("offset", ch) for ch in OFFSET_CHAINS] + [("plain", ch) for ch in PLAIN_CHAINS] + [("wide", ch) for ch in WIDE]


def meaning(name: str):
    """the encoding a modifier spelling denotes: letter case and '-' / '_' separators do not change what a name says"""
    return MEANING.get(name.lower().replace("-", "").replace("_", ""))


def canon(chain: str) -> str:
    """the chain with every spelling replaced by the canonical name of the encoding it denotes"""
    return "|".join(meaning(m) or m for m in chain.split("|"))


def spellings():
    """spellings of the six modifier names other than the canonical ones: the documented alias and name variants"""
    out = ["utf16le"]
    for n in MEANING:
        out += [n.upper(), n.capitalize()]
        for a, b in (("utf16", "utf-16"), ("utf16", "utf_16"), ("16le", "16-le"), ("16le", "16_le"), ("16be", "16-be"),
                     ("16be", "16_be"), ("utf16le", "utf-16-le"), ("utf16be", "utf-16-be"), ("utf16le", "UTF-16LE"),
                     ("utf16be", "UTF-16BE"), ("base64", "base-64"), ("base64", "base_64"), ("64offset", "64-offset"),
                     ("64offset", "64_offset"), ("64offset", "64Offset")):
            if a in n:
                out.append(n.replace(a, b))
    return [x for x in dict.fromkeys(out) if x == "utf16le" or x not in MEANING]


def spelled_chains(sp: str):
    """the (kind, chain) pairs in which the spelling takes the place of the canonical name"""
    m = meaning(sp)
    if m == "base64":
        return [("plain", sp), ("plain", "wide|" + sp)]
    if m == "base64offset":
        return [("offset", sp), ("offset", "wide|" + sp)]
    return [("wide", sp), ("plain", sp + "|base64"), ("offset", sp + "|base64offset")]


def related_lists(rnd, payloads):
    """value lists whose elements are related to each other or arbitrary; no unescaped wildcards"""
    flip = lambda x: "".join(c.swapcase() if rnd.random() < 0.5 else c for c in x)
    seeds = ["iex", "http://", "Invoke-Expression", "cmd.exe /c", "a", "ab", "abc", "\u00e4b", "\u00c9cole", "stra\u00dfe",
             "C:\\Temp\\", "x\\*y", "-enc "]
    seeds += ["".join(rnd.choice("abcXYZ/ -.1\u00e4\u00d6") for _ in range(rnd.randint(1, 9))) for _ in range(6)]
    out = []
    for p in seeds:
        out += [[p.upper(), p.lower()], [p.lower(), p.upper()], [p, p.swapcase(), p.title()], [p, p], [p, "zz", p.swapcase()],
                [p, p + " "], [" " + p, p, p + "x"], [p + p, p], [flip(p + "Qq"), flip(p + "Qq"), flip(p + "Qq")]]
    # normal forms, compatibility characters, characters whose case mappings are not one-to-one, digit strings, empty string
    out += [["\u00e9", "e\u0301"], ["caf\u00e9", "cafe\u0301", "CAF\u00c9"], ["\u212b", "\u00c5", "\u00e5"], ["\u212a", "K", "k"],
            ["\u00df", "ss", "SS", "\u1e9e"], ["i", "I", "\u0130", "\u0131"], ["\uff41", "a", "A"], ["\u03c3", "\u03c2", "\u03a3"],
            ["1", "01", "1.0", "1e0"], ["true", "True", "TRUE"], ["null", "Null", "~"], ["", "a"], ["a", ""], ["", " "],
            ["a", "b", "a", "B", "A"]]
    pool = [p for p in payloads if not has_wildcard(p) and len(p) <= 12] or ["a"]
    for _ in range(25):
        l = [rnd.choice(pool) for _ in range(rnd.randint(2, 5))]
        if rnd.random() < 0.5:
            l.insert(rnd.randrange(len(l) + 1), flip(rnd.choice(l)))
        out.append(l)
    return [l for l in out if not any(has_wildcard(x) for x in l)]


def sigma_plain(s: str) -> str:
    """the characters a Sigma string literal denotes (no unescaped wildcards are generated):
    a backslash escapes a following backslash, '*' or '?' and is literal otherwise"""
    out, i = [], 0
    while i < len(s):
        if s[i] == "\\" and i + 1 < len(s) and s[i + 1] in "\\*?":
            out.append(s[i + 1]); i += 2
        else:
            out.append(s[i]); i += 1
    return "".join(out)


def has_wildcard(s: str) -> bool:
    """does the Sigma string literal contain an unescaped '*' or '?'"""
    i = 0
    while i < len(s):
        if s[i] == "\\" and i + 1 < len(s) and s[i + 1] in "\\*?":
            i += 2
        elif s[i] in "*?":
            return True
        else:
            i += 1
    return False


def _value_strings(v):
    from sigma.types import SigmaExpansion
    if isinstance(v, SigmaExpansion):
        return [str(x) for x in v.values]
    return [str(v)]


YAML_RULE = "title: t\nlogsource:\n    category: test\ndetection:\n    sel:\n        \"f|%s\": %s\n    condition: sel\n"


def _yaml_scalar(s: str) -> str:
    """the string as a YAML double-quoted scalar in which everything but plain printable ASCII is written as an escape,
    so that the YAML reader (line folding, non-printable characters) returns exactly `s`"""
    out = []
    for c in s:
        o = ord(c)
        if 0x20 <= o < 0x7F and c not in '"\\':
            out.append(c)
        elif o < 0x100:
            out.append("\\x%02x" % o)
        elif o < 0x10000:
            out.append("\\u%04x" % o)
        else:
            out.append("\\U%08x" % o)
    return '"' + "".join(out) + '"'


def _produced(chain: str, payload: str, via: str):
    """the value the modifier chain produces for the payload, the payload entering by the entry point `via`"""
    from sigma.rule.detection import SigmaDetectionItem
    if via == "mapping":
        (v,) = SigmaDetectionItem.from_mapping("f|" + chain, payload).value
    elif via == "list":
        _, v = SigmaDetectionItem.from_mapping("f|" + chain, ["zz", payload]).value
    elif via == "keyword":
        (v,) = SigmaDetectionItem.from_mapping("|" + chain, payload).value
    elif via in ("rule", "yaml"):
        from sigma.rule import SigmaRule
        d = {"title": "t", "logsource": {"category": "test"}, "detection": {"sel": {"f|" + chain: payload}, "condition": "sel"}}
        if via == "yaml":
            rule = SigmaRule.from_yaml(YAML_RULE % (chain, _yaml_scalar(payload)))
        else:
            rule = SigmaRule.from_dict(d)
        (it,) = rule.detection.detections["sel"].detection_items
        (v,) = it.value
    elif via == "direct":
        from sigma.modifiers import modifier_mapping
        from sigma.types import SigmaString
        (v,) = SigmaDetectionItem("f", [modifier_mapping[m] for m in chain.split("|")], [SigmaString(payload)]).value
    else:
        raise ValueError(via)
    return v


def _produced_all(chain: str, lst, via: str):
    """the values the modifier chain produces for a value list of several payloads"""
    from sigma.rule.detection import SigmaDetectionItem
    if via == "multi":
        return list(SigmaDetectionItem.from_mapping("f|" + chain, list(lst)).value)
    if via == "multi-keyword":
        return list(SigmaDetectionItem.from_mapping("|" + chain, list(lst)).value)
    from sigma.rule import SigmaRule
    if via == "multi-rule":
        rule = SigmaRule.from_dict({"title": "t", "logsource": {"category": "test"},
                                    "detection": {"sel": {"f|" + chain: list(lst)}, "condition": "sel"}})
    elif via == "multi-yaml":
        rule = SigmaRule.from_yaml(YAML_RULE % (chain, "[" + ", ".join(_yaml_scalar(x) for x in lst) + "]"))
    else:
        raise ValueError(via)
    (it,) = rule.detection.detections["sel"].detection_items
    return list(it.value)


def _wide_obs(v):
    return {"value": cps("".join(p for p in v.s if isinstance(p, str))), "bytes": list(bytes(v)),
            "special": sum(1 for p in v.s if not isinstance(p, str))}


def _run_multi(case):
    """observation for one element of a value list: all values produced for the list (`all`), and - when the list kept
    one value per payload - the value at the element's position in the fields of the single-value observation"""
    lst, idx, via = case["list"], case["idx"], case["via"]
    chain = case["chain"].split("|")
    vals = _produced_all(case["chain"], lst, via)
    positional = len(vals) == len(lst)
    if case["kind"] == "wide":
        r = {"outcome": "ok", "all": [_wide_obs(v) for v in vals]}
        if positional:
            r.update(r["all"][idx])
        return r
    if len(chain) > 1:
        pre = _produced_all("|".join(chain[:-1]), lst, via)
        # the value of this payload entering the base64 stage; taken from the payload alone when the list lost the positions
        inb = bytes(pre[idx]) if len(pre) == len(lst) else bytes(_produced("|".join(chain[:-1]), case["payload"], "mapping"))
    else:
        inb = sigma_plain(case["payload"]).encode("utf-8")
    r = {"outcome": "ok", "inbytes": list(inb), "all": [[cps(x) for x in _value_strings(v)] for v in vals]}
    if positional:
        r["values"] = r["all"][idx]
    return r


def run_impl(case):
    chain = case["chain"].split("|")
    via = case.get("via", "mapping")
    try:
        if "list" in case:
            return _run_multi(case)
        if case["kind"] == "wide":
            return dict(_wide_obs(_produced(case["chain"], case["payload"], via)), outcome="ok")
        # value entering the base64 stage
        if len(chain) > 1:
            inbytes = list(bytes(_produced("|".join(chain[:-1]), case["payload"], via)))
        else:
            inbytes = list(sigma_plain(case["payload"]).encode("utf-8"))
        v = _produced(case["chain"], case["payload"], via)
        return {"outcome": "ok", "values": [cps(s) for s in _value_strings(v)], "inbytes": inbytes}
    except Exception as e:
        return {"outcome": outcome_of_exception(e), "msg": str(e)[:100]}


def make_request(case, impl, gen):
    if impl["outcome"] != "ok":
        return {"op": "ping"}
    if case["kind"] == "wide":
        return {"op": "wide.case", "s": cps(sigma_plain(case["payload"])), "be": canon(case["chain"]) == "utf16be",
                "impl": impl.get("value")}
    r = {"op": "b64.case", "v": impl["inbytes"], "ctxs": case.get("ctxs", [])}
    if "list" in case and case["kind"] == "offset":
        r["flat"] = [x for a in impl["all"] for x in a]
    g = gen.get("B64")
    if g:
        r["tables"] = {"starts": g["starts"], "cuts": g["cuts"]}
        if not g["lenIsBytes"]:
            r["lenV"] = len(sigma_plain(case["payload"]))
    if case["kind"] == "offset" and "values" in impl:
        r["impl3"] = impl["values"]
    return r


def _ident(case, impl):
    io = impl["outcome"]
    via = case.get("via", "mapping")
    key = (case["chain"], case["payload"]) if via == "mapping" else (case["chain"], case["payload"], via)
    fc = "f|" + case["chain"] + ("" if via == "mapping" else f" [entry point: {via}]")
    if "list" in case:
        key += (tuple(case["list"]), case["idx"])
        fc = f"f|{case['chain']} [entry point: {via}, value list {case['list']!r}, element #{case['idx']}]"
    nb = len(case["payload"].encode("utf-8", "surrogatepass"))
    nt = nb >= 2
    cch = canon(case["chain"])
    tags = (f"kind:{case['kind']}", f"chain:{cch}", f"len%3:{nb % 3}",
            "ascii" if case["payload"].isascii() else "non-ascii", f"impl:{io.split(':')[0]}", f"via:{via}")
    if cch != case["chain"]:
        tags += ("spelling:" + ("alias" if "utf16le" in case["chain"].split("|") else "variant"),)
    return io, key, fc, nt, tags


def _show(values):
    return ["".join(map(chr, x)) for x in values]


def _judge_list(case, impl, reply):
    """one element of a value list: it must be covered by the values produced for the list; the value at its position
    (when positions are kept) is judged like a single value, a miss there is drift as long as the element is covered"""
    io, key, fc, nt, tags = _ident(case, impl)
    n = len(impl["all"])
    fid = None
    if case["kind"] == "wide":
        u16 = reply["utf16"]
        if u16 is None:
            return _judge_one(case, impl, reply) if "bytes" in impl else Verdict("ok", "", nt, key, tags=tags)
        bom = canon(case["chain"]) == "utf16"
        expect = ([0xFF, 0xFE] if bom else []) + u16
        covered = any(a["bytes"] == expect and not a["special"] for a in impl["all"])
        if bom and any(a["bytes"] == [0xEF, 0xBB, 0xBF] + u16 and not a["special"] for a in impl["all"]):
            fid = "D18"
        miss = (f"none of the {n} produced values has the bytes of its UTF-16 encoding {bytes(expect)!r}: "
                f"{[bytes(a['bytes']) for a in impl['all']][:6]!r}")
    elif case["kind"] == "plain":
        covered = any(a == [reply["spec"]] for a in impl["all"])
        miss = (f"none of the {n} produced values {[s for a in impl['all'] for s in _show(a)][:6]!r} is the Base64 text "
                f"{''.join(map(chr, reply['spec']))!r} of its bytes")
    else:
        bad = [ctx for ctx, ok in zip(case["ctxs"], reply["flatResults"]) if ok is not True]
        covered = not bad
        miss = (f"none of the values produced for the list {[s for a in impl['all'] for s in _show(a)][:9]!r} occurs in "
                f"base64(prefix {bad[0]['p']} + payload + suffix {bad[0]['s']})") if bad else ""
    if not covered:
        return Verdict("violation", f"{fc}: payload {case['payload']!r}: {miss}", nt, key, finding=fid, tags=tags)
    if "values" in impl or "bytes" in impl:
        v = _judge_one(case, impl, reply)
        if v.status == "violation" and not v.finding:
            return Verdict("drift", "value list: the value at the element's position is not its encoding, another value of the list is: " + v.what,
                           nt, key, tags=tags)
        return v
    return Verdict("ok", "", nt, key, tags=tags + ("list:positions-not-kept",))


def judge(case, impl, reply):
    if "list" in case and impl["outcome"] == "ok" and not has_wildcard(case["payload"]):
        return _judge_list(case, impl, reply)
    return _judge_one(case, impl, reply)


def _judge_one(case, impl, reply):
    io, key, fc, nt, tags = _ident(case, impl)
    if has_wildcard(case["payload"]):
        # payloads are wildcard-free by the property's quantifier; the base64 modifiers must reject them
        if case["kind"] != "wide" and io == "ok":
            return Verdict("violation", f"{fc} accepted a value with wildcards: {case['payload']!r}", nt, key, tags=tags)
        return Verdict("ok", "", nt, key, tags=tags + ("unjudged:wildcard",))
    if io.startswith("other:"):
        return Verdict("violation", f"non-Sigma exception {io} for {fc}: {case['payload']!r}", nt, key, tags=tags)
    if io.startswith("sigma:"):
        # rejecting is the admissible alternative; but a plain base64 modifier has no reason to reject
        if case["chain"] in ("base64", "base64offset"):
            return Verdict("violation", f"{fc} rejects plain payload {case['payload']!r}: {impl.get('msg')}", nt, key, tags=tags)
        return Verdict("ok", "", nt, key, tags=tags)
    if case["kind"] == "wide":
        u16 = reply["utf16"]
        if u16 is None:
            return Verdict("violation", f"payload has no UTF-16 encoding but {fc} produced a value", nt, key, tags=tags)
        expect = ([0xFF, 0xFE] if canon(case["chain"]) == "utf16" else []) + u16
        if impl.get("special"):
            return Verdict("violation", (f"{fc}: {case['payload']!r} (no wildcard in the payload) -> value with {impl['special']} wildcard part(s): "
                                         f"it matches byte strings other than the UTF-16 encoding {bytes(expect)!r}"), nt, key, tags=tags)
        if impl["bytes"] != expect:
            fid = "D18" if canon(case["chain"]) == "utf16" and impl["bytes"] == [0xEF, 0xBB, 0xBF] + u16 else None
            return Verdict("violation", f"{fc}: {case['payload']!r} -> bytes {bytes(impl['bytes'])!r}, UTF-16 encoding is {bytes(expect)!r}",
                           nt, key, finding=fid, tags=tags)
        st = "ok"
        if reply["model"] is None or reply["model"] != impl["value"]:
            st = "drift"
        return Verdict(st, "model wideTrick differs" if st == "drift" else "", nt, key, tags=tags)
    if case["kind"] == "plain":
        if impl["values"] != [reply["spec"]]:
            return Verdict("violation", f"{fc}: {case['payload']!r} -> {''.join(map(chr, impl['values'][0]))!r} is not the Base64 text of its bytes", nt, key, tags=tags)
        return Verdict("ok", "", nt, key, tags=tags)
    # offset
    if len(impl["values"]) != 3:
        return Verdict("violation", f"{fc} produced {len(impl['values'])} values", nt, key, tags=tags)
    if not reply["noPad"]:
        return Verdict("violation", f"{fc}: {case['payload']!r}: a produced value contains '=' (depends on what follows the payload)", nt, key, tags=tags)
    for ctx, ok in zip(case["ctxs"], reply["results"]):
        if ok is False:
            i = len(ctx["p"]) % 3
            return Verdict("violation", (f"{fc}: {case['payload']!r}: value #{i} {''.join(map(chr, impl['values'][i]))!r} does not occur in "
                                         f"base64(prefix {ctx['p']} + payload + suffix {ctx['s']})"), nt, key, tags=tags)
    if impl["values"] != reply["model3"]:
        return Verdict("drift", f"model values {[''.join(map(chr, v)) for v in reply['model3']]} differ", nt, key, tags=tags)
    return Verdict("ok", "", nt, key, tags=tags)


def shrink(case, v, evaluate):
    cur, curv = case, v
    improved = True
    while improved and len(cur["payload"]) > 0:
        improved = False
        cands = [dict(cur, payload=cur["payload"][:i] + cur["payload"][i + 1:]) for i in range(len(cur["payload"]))]
        if "list" in cur:       # the payload is an element of the list: shorten it there, and try shorter lists
            cands = [dict(c, list=cur["list"][:cur["idx"]] + [c["payload"]] + cur["list"][cur["idx"] + 1:]) for c in cands]
            cands = [dict(cur, list=cur["list"][:j] + cur["list"][j + 1:], idx=cur["idx"] - (j < cur["idx"]))
                     for j in range(len(cur["list"])) if j != cur["idx"] and len(cur["list"]) > 2] + cands
        for c, i, r, vv in evaluate(cands):
            if vv.status == "violation" and vv.finding == curv.finding:
                cur, curv, improved = c, vv, True
                break
    return cur, curv
