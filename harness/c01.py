"""C01 — the converted query is logically equivalent to the Sigma rule.

Implementation observable: the query text emitted by a real `TextQueryBackend` subclass (built from a `Cfg`
with an unambiguous token syntax, see qsyntax.py), tokenised into `( ) and or not` and canonical atoms.
Deciding comparison (Lean driver `rule.sem`): the token list, read by the *target language's* precedence
(`ConvSpec.readQ`), has the same truth table over all atoms as the specification reading of the rule
document (`Rule.ruleBE`: map = AND, list = OR, modifiers per `Mods.applyChain`, condition per `CondSpec.read`).
Diagnostic comparison (`conv.run`, "drift"): the model converter `Conv.convert` — the function the theorems of
Props/C01.lean are about — is run on the implementation's own post-processed condition tree
(`rule.detection.parsed_condition[i].parsed`, walked after the conversion) and must emit exactly the token
skeleton of the real query: same parentheses, NOT/AND/OR tokens, atoms (by leaf identity), negated-twin atoms
and in-lists, in the same order.  A difference is reported as drift (evidence `model_drift`), never as a
violation: it says that the theorems talk about a converter that is not the one in sigma/conversion/base.py.

What the drift comparison deliberately does not see (the model abstracts from it; see ASSUMPTIONS):
how a single atom is spelled (template choice startswith/endswith/contains/wildcard-match, escaping — C05 and the
deciding comparison), deferred query parts (not produced by the harness backend), correlation conditions."""
from __future__ import annotations
import json, random
from .common import Verdict, cps, outcome_of_exception
from . import qsyntax
from .c03 import plain

ID = "C01"
GEN = ["Conv", "Mods", "B64"]
RULE = ("rules = 1..3 detections (maps, lists of maps, keyword lists, plain values) whose items draw from every value "
        "type and a modifier-chain pool (contains/startswith/endswith/all/neq/cased/re+flags/cidr/compare/exists/"
        "fieldref/windash/base64/base64offset and combinations), conditions = expression trees with not/and/or/"
        "parentheses/selectors; x backend configurations = 6 precedence orders x parenthesize x in-list knobs x "
        "presence/allow_special of the string operators x cased operators x explicit not-exists x native CIDR x "
        "NOT-as-not-equals; all truth assignments of the rule's atoms; distinct = distinct (rule, configuration); "
        "non-trivial = >= 2 atoms and an operator, or an in-list / string-operator / expansion shortcut taken; "
        "plus drift-only probes: the same rules behind a pipeline dropping the items of 1..3 fields (vanished operands, "
        "one-operand nodes, vanished conditions), compared with the model converter only"
        "; values incl. timestamp-part modifiers and non-ASCII base64 payloads; plus drift-only probes behind a drop pipeline (vanished operands)"
        "; a stream where the backend class converted another rule (negations, all string operators) before the probed one; configurations without case-sensitive templates")
RULE += "; round 4: values with a literal (escaped) '?' next to wildcard characters"
RULE += "; round 5: cased values rendered through a `{regex}` template (read back strictly: an unescaped operator is no literal), values with regular-expression operators, field names containing / starting with the target's quote and escape characters, long spellings of the regex flag modifiers"
ASSUMPTIONS = [
    "atoms are independent boolean variables identified by (field, match kind, decoded value): equivalence is judged as boolean functions of these",
    "the emitted text is tokenised by harness/qsyntax.py for a fixed unambiguous template syntax (string/field escaping itself is C05's subject)",
    "IPv4 CIDR values only (IPv6 expansion is C18's subject); a non-native CIDR atom means the OR of the patterns of the Lean expand4 model",
    "NotImplementedError for a feature the configuration lacks is an admissible outcome (not judged)",
    "drift: a leaf of the implementation's condition tree is identified with the canonical atom of its isolated rendering by the same backend (parentless copy of the leaf through convert_condition, tokenised by qsyntax); the drift comparison is therefore blind to the spelling of a single atom",
    "drift: the harness classifies leaves as the dispatch does: SigmaExpansion value -> CT.exp over its values; CIDR value and cidr_expression None -> CT.cidr over SigmaCIDRExpression.expand(); SigmaExists(False) and no field_not_exists_expression -> CT.nex; everything else -> CT.atom",
    "drift: AtomInfo.negatable := the template kind of the isolated rendering belongs to an attribute swapped by not_equals_context_manager (list regenerated from the source, Gen.Conv.swapped); the harness backend defines every not_* twin whenever it defines the positive template",
    "drift: AtomInfo.inOk / special := isinstance tests against the class names regenerated from decide_convert_condition_as_in_expression (Gen.Conv.inValueClasses / inExcluded / inSpecialClasses) and SigmaString.contains_special(); field identity = the field name",
    "drift: adjacent multi-character wildcards are collapsed before atoms are identified (a lone `*` is rendered `contains ''` as an atom and `*` as an in-list element)",
    "drift: deferred query expressions and backend-specific overrides of convert_condition_* are not exercised (TextQueryBackend as is)",
]

FIELDS = ["f", "g", "h_1", "field name", "'lead", "it's", "\\b.c"]      # incl. the quote / escape character of the target as first and inner character
STRS = ["abc", "a*", "*b", "*c*", "a?c", "a\\*b", "x y", "A", "*a*b*", "**", "a\\\\", "*", "a\\?b", "\\?x*",
        # characters that are operators in a regular expression (values rendered through a `{regex}` template must keep them literal)
        "a|b", "x.(y)+[z]{2}^$", "c:\\\\d+", "a|b*"]


def gen_item(rnd):
    """-> (key, value)"""
    f = rnd.choice(FIELDS)
    r = rnd.random()
    s = lambda: rnd.choice(STRS)
    if r < 0.18:
        return f, s()
    if r < 0.28:
        return f, [s(), s()] if rnd.random() < 0.7 else [s(), rnd.randint(0, 3), s()]
    if r < 0.34:
        return f, rnd.choice([1, 0, 2.5, [1, 2], [3, 4, 5]])
    if r < 0.38:
        return f, rnd.choice([True, False, None, []])
    if r < 0.50:
        m = rnd.choice(["contains", "startswith", "endswith", "contains|all", "endswith|all", "startswith|cased", "contains|cased", "cased|contains"])
        v = rnd.choice(["ab", "a*b", "*x", "y*", ["a", "b"], ["p", "q*", "r"], s()])
        return f + "|" + m, v
    if r < 0.57:
        return f + "|cased", rnd.choice(["Ab", ["a", "B"], "a*", ["x", "y", "z"], s(), s(), [s(), s()]])
    if r < 0.63:
        return f + "|" + rnd.choice(["re", "re|i", "re|m|s", "re|contains", "re|dotall", "re|ignorecase|multiline", "re|s", "re|m"]), rnd.choice(["a.*b", "^x$", "a/b", "c\\\\d", ["p+", "q?"]])
    if r < 0.70:
        return "ip|cidr", rnd.choice(["10.0.0.0/7", "10.1.0.0/16", "192.168.1.1/32", "10.64.0.0/10", ["10.0.0.0/8", "172.16.0.0/15"], "0.0.0.0/0"])
    if r < 0.75:
        return f + "|" + rnd.choice(["gt", "gte", "lt", "lte"]), rnd.choice([5, 0, 7.5, [1, 9]])
    if r < 0.77:
        return f + "|" + rnd.choice(["hour", "minute", "day", "week", "month", "year"]), rnd.choice([3, 0, [1, 2], [0, 1, 2]])
    if r < 0.79:
        return f + "|exists", rnd.choice([True, False])
    if r < 0.83:
        return f + "|" + rnd.choice(["fieldref", "fieldref|startswith", "fieldref|contains", "fieldref|endswith"]), rnd.choice(["g", "other field", ["g", "h_1"]])
    if r < 0.88:
        return f + "|" + rnd.choice(["windash", "windash|contains", "contains|windash"]), rnd.choice(["-a", "x -y", "a-b", "/q"])
    if r < 0.93:
        return f + "|" + rnd.choice(["base64", "base64offset|contains", "wide|base64offset|contains", "base64|contains"]), rnd.choice(["ab", "x", "hello", "für", "Grüße", "€ 1"])
    m = rnd.choice(["neq", "contains|neq", "all|neq", "neq|cased", "re|neq", "cidr|neq", "gt|neq", "exists|neq"])
    if m.startswith("cidr"):
        return "ip|" + m, "10.0.0.0/7"
    if m.startswith("gt"):
        return f + "|" + m, 3
    if m.startswith("exists"):
        return f + "|" + m, True
    return f + "|" + m, rnd.choice(["a", ["a", "b"], "x*"])


def gen_det(rnd):
    r = rnd.random()
    if r < 0.55:
        items = {}
        for _ in range(rnd.choice([1, 1, 2, 2, 3])):
            k, v = gen_item(rnd)
            items[k] = v
        return items
    if r < 0.75:
        out = []
        for _ in range(rnd.choice([2, 2, 3])):
            d = {}
            for _ in range(rnd.choice([1, 2])):
                k, v = gen_item(rnd)
                d[k] = v
            out.append(d)
        return out
    if r < 0.90:
        return rnd.choice([["kw1", "kw*2"], ["a", "b", "c"], "single", ["x", 1], [7, 8], "*wild*"])
    return {("|" + rnd.choice(["contains", "endswith", "re", "contains|all"])): rnd.choice(["k", ["k1", "k2"]])}


CONDS_1 = ["sel", "not sel"]
CONDS_2 = ["sel and flt", "sel or flt", "sel and not flt", "not (sel or flt)", "not sel and not flt", "1 of them", "all of them",
           "not 1 of them", "sel or not flt", "not (sel and flt)"]
CONDS_3 = ["sel and (flt or sel2)", "sel or flt and sel2", "(sel or flt) and sel2", "sel and not (flt or sel2)", "1 of sel* and not flt",
           "all of sel* or flt", "not (sel and flt) or sel2", "sel and flt and sel2", "sel or flt or sel2", "not 1 of sel* and flt",
           "sel and not flt and not sel2", "not (not sel or flt) and sel2", "1 of sel* or all of them", "sel or (flt and (sel2 or sel))"]


def gen_cfg(rnd):
    c = {"prec": rnd.choice(qsyntax.PRECS) if rnd.random() < 0.7 else ("not", "and", "or"),
         "parenthesize": rnd.random() < 0.25, "orAsIn": rnd.random() < 0.5, "andAsIn": rnd.random() < 0.4,
         "inAllowWild": rnd.random() < 0.5, "notAsNotEq": rnd.random() < 0.12,
         "sw": rnd.random() < 0.6, "ew": rnd.random() < 0.6, "ct": rnd.random() < 0.6, "wm": rnd.random() < 0.4,
         "swSpecial": rnd.random() < 0.3, "ewSpecial": rnd.random() < 0.3, "ctSpecial": rnd.random() < 0.3,
         "cased": rnd.choice(["all", "all", "match", "none"]), "explicitNotExists": rnd.random() < 0.5, "nativeCidr": rnd.random() < 0.5}
    c["prec"] = list(c["prec"])
    # a target without case-sensitive string operator: cased values go through the `{regex}` template variable
    c["casedRegex"] = c["cased"] != "none" and rnd.random() < 0.4
    return c


def gen_cases(tier, seed, gen, effort):
    rnd = random.Random(seed * 9176 + 1)
    thorough = tier == "thorough"
    n = (1800 if not thorough else 30000) * effort
    cases = []
    for _ in range(n):
        k = rnd.choice([1, 2, 2, 3, 3])
        names = ["sel", "flt", "sel2"][:k]
        dets = {nm: gen_det(rnd) for nm in names}
        conds = rnd.choice({1: CONDS_1, 2: CONDS_2, 3: CONDS_3}[k])
        if rnd.random() < 0.1:
            conds = [conds, rnd.choice({1: CONDS_1, 2: CONDS_2, 3: CONDS_3}[k])]
        for _ in range(2 if not thorough else 3):
            cases.append({"dets": dets, "cond": conds, "cfg": gen_cfg(rnd)})
    # drift-only probes: the same rules behind a pipeline that drops the detection items of some fields, so that the
    # condition tree contains vanished operands (`None`), one-operand AND/OR nodes and conditions that vanish as a whole.
    # What dropping means for the rule is C13's subject: the deciding comparison is skipped for these cases.
    rnd2 = random.Random(seed * 9176 + 2)
    for _ in range((400 if not thorough else 8000) * effort):
        k = rnd2.choice([2, 3, 3])
        names = ["sel", "flt", "sel2"][:k]
        dets = {nm: gen_det(rnd2) for nm in names}
        conds = rnd2.choice({2: CONDS_2, 3: CONDS_3}[k])
        if rnd2.random() < 0.15:
            conds = [conds, rnd2.choice({2: CONDS_2, 3: CONDS_3}[k])]
        drop = sorted(rnd2.sample(FIELDS + ["ip"], rnd2.choice([1, 2, 2, 3])))
        cases.append({"dets": dets, "cond": conds, "cfg": gen_cfg(rnd2), "drop": drop})
    # the backend CLASS converted another rule before (negations, every string operator, cased values): class-level templates that a
    # conversion swaps temporarily must be back in place for the next rule
    rnd3 = random.Random(seed * 9176 + 3)
    probes = [{"sel": {"f|cased|endswith": "Ab", "g|endswith": "cd"}}, {"sel": {"f|cased|startswith": "Ab", "g|startswith": "cd"}},
              {"sel": {"f|cased|contains": "Ab", "g|contains": "cd", "h_1|cased": "Ef"}}, {"sel": {"f|re": "a.b", "g": None, "h_1|exists": True}},
              {"sel": {"f|cidr": "10.0.0.0/9", "g|gt": 5, "h_1|fieldref": "g"}}]
    for _ in range((60 if not thorough else 600) * effort):
        cfg = gen_cfg(rnd3)
        cfg["notAsNotEq"] = rnd3.random() < 0.7
        cfg["cased"] = "all"
        prior = {"dets": {"sel": gen_det(rnd3), "flt": gen_det(rnd3)}, "cond": rnd3.choice(["sel and not flt", "not sel", "not (sel or flt)"])}
        for dets in probes:
            cases.append({"dets": dets, "cond": rnd3.choice(["sel", "not sel"]), "cfg": cfg, "prior": prior})
    # all 6 precedences x parenthesize on a fixed rule family (systematic part)
    fam = [({"sel": {"f": "a"}, "flt": {"g": 1}, "sel2": {"h_1|contains": ["x", "y"]}}, c) for c in CONDS_3]
    for dets, cond in fam:
        for prec in qsyntax.PRECS:
            for par in (False, True):
                cfg = {"prec": list(prec), "parenthesize": par, "orAsIn": False, "andAsIn": False, "inAllowWild": False, "notAsNotEq": False,
                       "sw": True, "ew": True, "ct": True, "wm": False, "swSpecial": False, "ewSpecial": False, "ctSpecial": False,
                       "cased": "all", "explicitNotExists": False, "nativeCidr": True}
                cases.append({"dets": dets, "cond": cond, "cfg": cfg})
    return cases, False


_bk = {}


def backend_for(cfg, drop=None):
    key = repr(sorted(cfg.items()))
    if key not in _bk:
        _bk[key] = qsyntax.make_backend(cfg)
    if not drop:
        return _bk[key]()
    from sigma.processing.pipeline import ProcessingPipeline, ProcessingItem
    from sigma.processing.transformations import DropDetectionItemTransformation
    from sigma.processing.conditions import IncludeFieldCondition
    return _bk[key](processing_pipeline=ProcessingPipeline([ProcessingItem(
        DropDetectionItemTransformation(), field_name_conditions=[IncludeFieldCondition(list(drop))])]))


def run_impl(case):
    from sigma.collection import SigmaCollection
    try:
        coll = SigmaCollection.from_dicts([{"title": "t", "logsource": {"category": "c"},
                                            "detection": {**case["dets"], "condition": case["cond"]}}])
        if case.get("prior"):
            try:
                backend_for(case["cfg"]).convert(SigmaCollection.from_dicts([{"title": "p", "logsource": {"category": "c"},
                                                                              "detection": {**case["prior"]["dets"], "condition": case["prior"]["cond"]}}]))
            except Exception:
                pass
        b = backend_for(case["cfg"], case.get("drop"))
        qs = b.convert(coll)
        out = {"outcome": "ok", "queries": qs}
        try:
            out.update(impl_trees(coll.rules[0], b))
        except Exception as e:      # the drift comparison is diagnostic: never let it decide the outcome
            out["trees"] = None
            out["treeErr"] = f"{type(e).__name__}: {e}"[:200]
        return out
    except NotImplementedError as e:
        return {"outcome": "unsupported", "msg": str(e)[:100]}
    except Exception as e:
        return {"outcome": outcome_of_exception(e), "msg": str(e)[:160]}


# ------------------------------------------------------------------ drift: the implementation's condition tree
def _leaf(cond, b):
    """facts about one field/value or value-only expression + the token of its isolated rendering"""
    from sigma.conversion.state import ConversionState
    toks = qsyntax.tokenize(b.convert_condition(cond, ConversionState()), kinds=True)
    if len(toks) != 1 or not isinstance(toks[0], dict) or "in" in toks[0]:
        raise ValueError(f"leaf {cond!r} renders to {len(toks)} tokens")
    v = cond.value
    return {"f": getattr(cond, "field", None), "mro": [c.__name__ for c in type(v).__mro__],
            "cs": bool(v.contains_special()) if hasattr(v, "contains_special") else None, "tok": toks[0]}


def _tree(node, b):
    from sigma.conditions import (ConditionAND, ConditionOR, ConditionNOT, ConditionFieldEqualsValueExpression as FE,
                                  ConditionValueExpression as VE)
    from sigma.types import SigmaExpansion, SigmaCIDRExpression, SigmaExists, SigmaString
    if node is None:
        return None
    if isinstance(node, ConditionAND):
        return {"and": [_tree(a, b) for a in node.args]}
    if isinstance(node, ConditionOR):
        return {"or": [_tree(a, b) for a in node.args]}
    if isinstance(node, ConditionNOT):
        return {"not": _tree(node.args[0], b)}
    if isinstance(node, (FE, VE)):
        bound = isinstance(node, FE)
        v = node.value
        mk = (lambda x: FE(node.field, x)) if bound else (lambda x: VE(x))
        if isinstance(v, SigmaExpansion):
            return {"exp": [_leaf(mk(x), b) for x in v.values]}
        if bound and isinstance(v, SigmaCIDRExpression) and b.cidr_expression is None:
            return {"cidr": [_leaf(mk(SigmaString(n)), b) for n in v.expand()]}
        if bound and isinstance(v, SigmaExists) and not v and not b.explicit_not_exists_expression:
            return {"nex": _leaf(mk(SigmaExists(True)), b)}
        return {"atom": _leaf(mk(v), b)}
    raise TypeError(f"unexpected node {type(node).__name__}")


def impl_trees(rule, b):
    cls = type(b)
    kinds = {}
    for name in dir(cls):
        val = getattr(cls, name, None)
        if name.endswith("_expression") and isinstance(val, str) and val.startswith("["):
            kinds[name] = val[1:].split(" ", 1)[0]
    from sigma.conversion.state import ConversionState
    return {"trees": [_tree(pc.parsed, b) for pc in rule.detection.parsed_condition], "tmplKinds": kinds,
            # which conditions convert to nothing (`convert_rule` silently leaves their queries out)
            "vanished": [b.convert_condition(pc.parsed, ConversionState()) is None for pc in rule.detection.parsed_condition]}


def tree_features(t, out=None, under_not=False):
    """distribution tags: which shapes the drift comparison saw"""
    out = set() if out is None else out
    if t is None:
        out.add("vanished-operand")
    elif "and" in t or "or" in t:
        k = "and" if "and" in t else "or"
        if len(t[k]) == 1: out.add("one-operand-node")
        for x in t[k]: tree_features(x, out, under_not)
    elif "not" in t:
        if under_not: out.add("not-in-not")
        tree_features(t["not"], out, True)
    else:
        k = next(iter(t))
        out.add(k if k != "atom" else "atom")
        if under_not and k in ("exp", "cidr", "nex"): out.add(k + "-under-not")
    return out


def aligned_queries(impl, nconds):
    """per condition: its query, or None where the condition vanished; None if the counts do not add up"""
    van = impl.get("vanished")
    if not impl.get("trees") or van is None or len(van) != nconds or len(impl["trees"]) != nconds:
        return None
    if len(impl["queries"]) != van.count(False):
        return None
    it = iter(impl["queries"])
    return [None if v else next(it) for v in van]


CONV_DEFAULTS = {"swapped": ["eq_expression"], "inValueClasses": ["SigmaString", "SigmaNumber"], "inExcluded": ["SigmaCasedString"],
                 "inSpecialClasses": ["SigmaString"]}


def _akey(pol, a):
    """canonical key of an atom token; adjacent multi-character wildcards are collapsed (`[ct f ""]` = `*` + `*` is the
    atom the in-list element `"*"` denotes; same normalisation as the driver's `collapseStars`)"""
    if a.get("k") == "str":
        pat = []
        for x in a["pat"]:
            if not (x == "*" and pat and pat[-1] == "*"):
                pat.append(x)
        a = dict(a, pat=pat)
    return json.dumps([pol, a], sort_keys=True)


def conv_request(tree, cfg, kinds, g):
    """-> (request for the Lean driver, {atom key -> id})"""
    g = dict(CONV_DEFAULTS, **(g or {}))
    negkinds = {kinds[a] for a in g["swapped"] if a in kinds}
    table, fields = {}, {}

    def key(tok):
        pol = "natom" if "natom" in tok else "atom"
        return _akey(pol, tok[pol])

    def one(l):
        i = table.setdefault(key(l["tok"]), len(table))
        mro = set(l["mro"])
        info = {"field": None if l["f"] is None else fields.setdefault(l["f"], len(fields)),
                "inOk": bool(mro & set(g["inValueClasses"])) and not (mro & set(g["inExcluded"])),
                "special": bool(l["cs"]) and bool(mro & set(g["inSpecialClasses"])),
                "negatable": l["tok"].get("t") in negkinds}
        return i, info

    def walk(t):
        if t is None:
            return None
        if "and" in t: return {"and": [walk(x) for x in t["and"]]}
        if "or" in t: return {"or": [walk(x) for x in t["or"]]}
        if "not" in t: return {"not": walk(t["not"])}
        if "atom" in t:
            i, info = one(t["atom"]); return {"atom": i, "info": info}
        if "nex" in t:
            i, info = one(t["nex"]); return {"nex": i, "info": info}
        k = "exp" if "exp" in t else "cidr"
        return {k: [list(one(l)) for l in t[k]]}
    req = {"op": "conv.run", "tree": walk(tree),
           "cfg": {k: cfg[k] for k in ("prec", "parenthesize", "orAsIn", "andAsIn", "inAllowWild", "notAsNotEq")}}
    return req, table


def impl_skeleton(query, table):
    """the real query as the model's token list: atoms by leaf id; None entries = an atom no leaf accounts for"""
    out = []
    for t in qsyntax.tokenize(query, kinds=True):
        if isinstance(t, str):
            out.append(t); continue
        if "in" in t:
            ids = [table.get(_akey("atom", a)) for a in t["in"]["atoms"]]
            out.append(["in", bool(t["in"]["or"]), ids]); continue
        pol = "natom" if "natom" in t else "atom"
        a = t[pol]
        i = table.get(_akey(pol, a))
        if i is not None:
            out.append(["a", i])                       # the leaf's own rendering
        elif pol == "natom" and _akey("atom", a) in table:
            out.append(["n", table[_akey("atom", a)]])     # its negated twin
        else:
            out.append(["?", None])
    return out


def model_skeleton(reply):
    if reply.get("vanished"):
        return None
    out = []
    for t in reply["tokens"]:
        if isinstance(t, str): out.append(t)
        elif "atom" in t: out.append(["a", t["atom"]])
        elif "natom" in t: out.append(["n", t["natom"]])
        else: out.append(["in", bool(t["in"]["or"]), list(t["in"]["ids"])])
    return out


def show_skel(sk):
    if sk is None:
        return "<nothing>"
    return " ".join(t.upper() if isinstance(t, str) else (f"a{t[1]}" if t[0] == "a" else f"!a{t[1]}" if t[0] == "n" else
                    f"in{'|' if t[1] else '&'}{t[2]}" if t[0] == "in" else "<unknown atom>") for t in sk)


def det_json(d):
    if isinstance(d, dict):
        return {"map": [[cps(k), [plain(v) for v in (val if isinstance(val, list) else [val])]] for k, val in d.items()]}
    if isinstance(d, list):
        if all(not isinstance(x, (dict, list)) for x in d):
            return {"values": [plain(v) for v in d]}
        return {"list": [det_json(x) for x in d]}
    return {"values": [plain(d)]}


def make_sem_request(case, impl, gen):
    """the deciding comparison's request (`rule.batch`); also used by C17"""
    conds = case["cond"] if isinstance(case["cond"], list) else [case["cond"]]
    text = repr(case["dets"])
    import re as _re
    wc = sorted({c for c in text if ord(c) > 127 and _re.match(r"\w", c)})
    base = {"op": "rule.batch", "dets": [{"name": cps(n), "det": det_json(d)} for n, d in case["dets"].items()],
            "cfg": {"prec": case["cfg"]["prec"], "nativeCidr": case["cfg"]["nativeCidr"]}, "wordChars": cps("".join(wc))}
    g = gen.get("B64")
    if g:
        base["tables"] = {"starts": g["starts"], "cuts": g["cuts"]}
    items = []
    for i, c in enumerate(conds):
        it = {"cond": cps(c)}
        if impl["outcome"] == "ok" and i < len(impl["queries"]):
            try:
                it["query"] = qsyntax.tokenize(impl["queries"][i])
            except qsyntax.Tokenize as e:
                it["tokErr"] = str(e)
        items.append(it)
    base["items"] = items
    return base


def make_request(case, impl, gen):
    """one line per case: part 0 = the deciding comparison, parts 1.. = `conv.run` per condition"""
    conds = case["cond"] if isinstance(case["cond"], list) else [case["cond"]]
    parts = [make_sem_request(case, impl, gen) if not case.get("drop") else {"op": "ping"}]
    impl.pop("conv", None)
    qs = aligned_queries(impl, len(conds)) if impl["outcome"] == "ok" else None
    if qs is not None:
        conv = []
        for tree, q in zip(impl["trees"], qs):
            req, table = conv_request(tree, case["cfg"], impl.get("tmplKinds", {}), gen.get("Conv"))
            conv.append({"part": len(parts), "table": table, "query": q, "tree": tree})
            parts.append(req)
        impl["conv"] = conv          # read back by judge (same object)
    return {"op": "multi", "parts": parts}


def judge(case, impl, reply):
    """the deciding comparison, then — whatever it said — the drift comparison"""
    if case.get("drop"):
        v = Verdict("ok", "", False, (case["dets"], case["cond"], sorted(case["cfg"].items()), case["drop"]),
                    tags=("drop-probe", f"impl:{impl['outcome'].split(':')[0]}"))
    else:
        v = judge_sem(case, impl, reply["parts"][0])
    tags = list(v.tags)
    drift = []
    if impl["outcome"] == "ok" and "conv" not in impl:
        tags.append("drift:unjudged")        # tree not extractable / a condition vanished
    for c, cv in zip(case["cond"] if isinstance(case["cond"], list) else [case["cond"]], impl.get("conv", [])):
        q = cv["query"]
        try:
            mine = impl_skeleton(q, cv["table"]) if q is not None else None
        except qsyntax.Tokenize:
            tags.append("drift:unjudged"); continue
        model = model_skeleton(reply["parts"][cv["part"]])
        tags.append("drift:compared" if q is not None else "drift:compared-vanished")
        tags += [f"drift-tree:{f}" for f in sorted(tree_features(cv["tree"])) if f != "atom"]
        if case["cfg"]["notAsNotEq"] and mine and any(isinstance(t, list) and t[0] == "n" for t in mine): tags.append("drift-tree:negated-twin")
        if mine != model:
            drift.append(f"condition {c!r} over {case['dets']} under {short(case['cfg'])}: implementation emits  {show_skel(mine)}  "
                         f"the model converter emits  {show_skel(model)}  (query {q!r}; atoms {show_legend(cv['table'])})")
    v.tags = tuple(tags)
    if drift:
        if v.status == "ok":
            return Verdict("drift", drift[0], v.nontrivial, v.key, tags=v.tags + ("drift:differs",))
        v.drift = drift[0]
        v.tags = v.tags + ("drift:differs",)
    return v


def show_legend(table):
    out = []
    for k, i in sorted(table.items(), key=lambda kv: kv[1]):
        pol, a = json.loads(k)
        out.append(f"a{i}={'not ' if pol == 'natom' else ''}{show_atoms([a])[1:-1]}")
    return "; ".join(out)


def judge_sem(case, impl, reply):
    io = impl["outcome"]
    cfg = case["cfg"]
    key = (case["dets"], case["cond"], sorted(cfg.items()))
    conds = case["cond"] if isinstance(case["cond"], list) else [case["cond"]]
    tags = [f"impl:{io.split(':')[0]}", f"prec:{'-'.join(cfg['prec'])}", f"paren:{cfg['parenthesize']}"]
    nt = True
    if io.startswith("other:"):
        return Verdict("violation", f"non-Sigma exception {io}: {impl.get('msg')} for {case['dets']} / {case['cond']}", nt, key, tags=tuple(tags))
    results = reply["items"]
    if io == "unsupported":
        return Verdict("ok", "", False, key, tags=tuple(tags + ["unjudged:unsupported"]))
    spec_errs = [r for r in results if "specErr" in r]
    if io.startswith("sigma:"):
        if spec_errs:
            return Verdict("ok", "", False, key, tags=tuple(tags + ["both-reject"]))
        # the specification reads the rule, the implementation rejects it
        if "cased" in repr(case["dets"]) and "re" in repr(case["dets"]):
            pass
        return Verdict("violation", f"valid rule rejected with {io}: {impl.get('msg')} :: {case['dets']} / {case['cond']}", nt, key, tags=tuple(tags))
    if len(impl["queries"]) != len(conds):
        return Verdict("violation", f"{len(conds)} conditions but {len(impl['queries'])} queries: {impl['queries']}", nt, key, tags=tuple(tags))
    for c, q, r in zip(conds, impl["queries"], results):
        if "tokErr" in r:
            return Verdict("violation", f"emitted query is not well-formed in the backend's own syntax ({r['tokErr']}): {q!r}", nt, key, tags=tuple(tags))
        if "specErr" in r:
            if r["specErr"] == "condition" and "selector" in str(r.get("detail")):
                tags.append("unjudged:empty-selector"); continue
            return Verdict("violation", f"rule is not admissible per specification ({r['specErr']}: {r.get('detail')}) but was converted to {q!r} :: {case['dets']}", nt, key, tags=tuple(tags))
        if r.get("tooMany"):
            tags.append("unjudged:too-many-atoms"); continue
        # D6 (not-equals rendering is unsound) can only be at work where something is negated: a NOT in the condition or a `neq` item
        negation = any("not" in c_.split() or "not(" in c_.replace(" ", "") for c_ in (case["cond"] if isinstance(case["cond"], list) else [case["cond"]])) \
            or "neq" in repr(case["dets"]) or _negated_exists(case["dets"])       # `exists: false` is rendered as a NOT from inside the atom
        fid = "D6" if (cfg["notAsNotEq"] and negation) else ("D27" if (cfg["prec"][0] != "not" and not cfg["explicitNotExists"] and _negated_exists(case["dets"])) else None)
        if r.get("readErr"):
            return Verdict("violation", f"query {q!r} cannot be read with precedence {cfg['prec']} (unbalanced / operator without operand) :: {case['dets']} / {c}", nt, key, finding=fid, tags=tuple(tags))
        if not r["equal"]:
            return Verdict("violation", (f"condition {c!r} over {case['dets']} under {short(cfg)} -> {q!r}: read with precedence {cfg['prec']} it is "
                                         f"{not r['specValue']} where the rule is {r['specValue']} when exactly these atoms hold: {show_atoms(r['trueAtoms'])}; "
                                         f"atoms only in query: {show_atoms(r['extraAtoms'])}; only in rule: {show_atoms(r['missingAtoms'])}"),
                           nt, key, finding=fid, tags=tuple(tags))
        tags.append(f"atoms:{min(r['natoms'], 9)}")
        if " in " in q or "[in " in q: tags.append("inlist")
        for k in ("[sw ", "[ew ", "[ct ", "[wm ", "[csw", "[ncs", "[nex", "[cidr", "[cre"):
            if k in q: tags.append("op:" + k.strip("[ "))
    return Verdict("ok", "", nt, key, tags=tuple(tags))


def _negated_exists(dets):
    """does the rule contain an item `field|exists: false` (rendered as NOT exists(...) from inside the atom conversion)?"""
    def walk(d):
        if isinstance(d, dict):
            return any(("|exists" in k and ((v is False) != ("|neq" in k and False))) and v is False for k, v in d.items())
        if isinstance(d, list):
            return any(walk(x) for x in d)
        return False
    return any(walk(d) for d in dets.values())


def short(cfg):
    on = [k for k, v in cfg.items() if v is True]
    return f"prec={'>'.join(cfg['prec'])} {' '.join(on)} cased={cfg['cased']}"


def show_atoms(atoms):
    from .common import uncps
    out = []
    for a in atoms or []:
        f = uncps(a["f"]) if a.get("f") is not None else "<kw>"
        if a["k"] == "str":
            from .c05 import show
            out.append(f"{f}{'≡' if a['cased'] else '='}{show(a['pat'])!r}")
        else:
            rest = {k: (uncps(v) if isinstance(v, list) else v) for k, v in a.items() if k not in ("k", "f")}
            out.append(f"{a['k']}({f},{rest})")
    return "[" + ", ".join(out) + "]"


def shrink(case, v, evaluate):
    cur, curv = case, v
    improved = True
    while improved:
        improved = False
        cands = []
        for nm, d in cur["dets"].items():
            if isinstance(d, dict) and len(d) > 1:
                for k in d:
                    nd = dict(cur["dets"]); nd[nm] = {kk: vv for kk, vv in d.items() if kk != k}
                    cands.append(dict(cur, dets=nd))
            if isinstance(d, list) and len(d) > 1:
                for i in range(len(d)):
                    nd = dict(cur["dets"]); nd[nm] = d[:i] + d[i + 1:]
                    cands.append(dict(cur, dets=nd))
            if isinstance(d, dict):
                for k, val in d.items():
                    if isinstance(val, list) and len(val) > 1:
                        for i in range(len(val)):
                            nd = dict(cur["dets"]); nd[nm] = dict(d); nd[nm][k] = val[:i] + val[i + 1:]
                            cands.append(dict(cur, dets=nd))
        for k2, val in cur["cfg"].items():
            if val is True and k2 != "notAsNotEq":
                cands.append(dict(cur, cfg=dict(cur["cfg"], **{k2: False})))
        if isinstance(cur["cond"], list) and len(cur["cond"]) > 1:
            cands += [dict(cur, cond=c) for c in cur["cond"]]
        for c, i, r, vv in evaluate(cands):
            if vv.status == "violation" and vv.finding == curv.finding:
                cur, curv, improved = c, vv, True
                break
    return cur, curv
