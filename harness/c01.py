"""C01 — the converted query is logically equivalent to the Sigma rule.

Implementation observable: the query text emitted by a real `TextQueryBackend` subclass (built from a `Cfg`
with an unambiguous token syntax, see qsyntax.py), tokenised into `( ) and or not` and canonical atoms.
Deciding comparison (Lean driver `rule.sem`): the token list, read by the *target language's* precedence
(`ConvSpec.readQ`), has the same truth table over all atoms as the specification reading of the rule
document (`Rule.ruleBE`: map = AND, list = OR, modifiers per `Mods.applyChain`, condition per `CondSpec.read`).
Diagnostic comparison (`conv.run`): the token skeleton equals the model converter's (`Conv.convert`) on the
implementation's own post-processed condition tree."""
from __future__ import annotations
import random
from .common import Verdict, cps, outcome_of_exception
from . import qsyntax
from .c03 import plain

ID = "C01"
GEN = ["Conv", "Mods", "B64"]
RULE = ("rules = 1..3 detections (maps, lists of maps, keyword lists, plain values) whose items draw from every value "
        "type and a modifier-chain pool (contains/startswith/endswith/all/neq/cased/re+flags/cidr/compare/exists/"
        "fieldref/windash/base64/base64offset and combinations), conditions = expression trees with not/and/or/"
        "parentheses/selectors; x backend configurations = 6 precedence orders x parenthesize x in-list knobs x "
        "presence/allow_special of the string operators x cased operators x explicit not-exists x native CIDR x "
        "NOT-as-not-equals; all truth assignments of the rule's atoms; distinct = distinct (rule, configuration); "
        "non-trivial = >= 2 atoms and an operator, or an in-list / string-operator / expansion shortcut taken")
ASSUMPTIONS = [
    "atoms are independent boolean variables identified by (field, match kind, decoded value): equivalence is judged as boolean functions of these",
    "the emitted text is tokenised by harness/qsyntax.py for a fixed unambiguous template syntax (string/field escaping itself is C05's subject)",
    "IPv4 CIDR values only (IPv6 expansion is C18's subject); a non-native CIDR atom means the OR of the patterns of the Lean expand4 model",
    "NotImplementedError for a feature the configuration lacks is an admissible outcome (not judged)",
]

FIELDS = ["f", "g", "h_1", "field name"]
STRS = ["abc", "a*", "*b", "*c*", "a?c", "a\\*b", "x y", "A", "*a*b*", "**", "a\\\\", "*"]


def gen_item(rnd):
    """-> (key, value)"""
    f = rnd.choice(FIELDS)
    r = rnd.random()
    s = lambda: rnd.choice(STRS)
    if r < 0.18:
        return f, s()
    if r < 0.28:
        return f, [s(), s()] if rnd.random() < 0.7 else [s(), rnd.randint(0, 3), s()]
    if r < 0.34:
        return f, rnd.choice([1, 0, 2.5, [1, 2], [3, 4, 5]])
    if r < 0.38:
        return f, rnd.choice([True, False, None, []])
    if r < 0.50:
        m = rnd.choice(["contains", "startswith", "endswith", "contains|all", "endswith|all", "startswith|cased", "contains|cased", "cased|contains"])
        v = rnd.choice(["ab", "a*b", "*x", "y*", ["a", "b"], ["p", "q*", "r"]])
        return f + "|" + m, v
    if r < 0.57:
        return f + "|cased", rnd.choice(["Ab", ["a", "B"], "a*", ["x", "y", "z"]])
    if r < 0.63:
        return f + "|" + rnd.choice(["re", "re|i", "re|m|s", "re|contains"]), rnd.choice(["a.*b", "^x$", "a/b", "c\\\\d", ["p+", "q?"]])
    if r < 0.70:
        return "ip|cidr", rnd.choice(["10.0.0.0/7", "10.1.0.0/16", "192.168.1.1/32", "10.64.0.0/10", ["10.0.0.0/8", "172.16.0.0/15"], "0.0.0.0/0"])
    if r < 0.75:
        return f + "|" + rnd.choice(["gt", "gte", "lt", "lte"]), rnd.choice([5, 0, 7.5, [1, 9]])
    if r < 0.79:
        return f + "|exists", rnd.choice([True, False])
    if r < 0.83:
        return f + "|" + rnd.choice(["fieldref", "fieldref|startswith", "fieldref|contains", "fieldref|endswith"]), rnd.choice(["g", "other field", ["g", "h_1"]])
    if r < 0.88:
        return f + "|" + rnd.choice(["windash", "windash|contains", "contains|windash"]), rnd.choice(["-a", "x -y", "a-b", "/q"])
    if r < 0.93:
        return f + "|" + rnd.choice(["base64", "base64offset|contains", "wide|base64offset|contains", "base64|contains"]), rnd.choice(["ab", "x", "hello", "für", "Grüße", "€ 1"])
    m = rnd.choice(["neq", "contains|neq", "all|neq", "neq|cased", "re|neq", "cidr|neq", "gt|neq", "exists|neq"])
    if m.startswith("cidr"):
        return "ip|" + m, "10.0.0.0/7"
    if m.startswith("gt"):
        return f + "|" + m, 3
    if m.startswith("exists"):
        return f + "|" + m, True
    return f + "|" + m, rnd.choice(["a", ["a", "b"], "x*"])


def gen_det(rnd):
    r = rnd.random()
    if r < 0.55:
        items = {}
        for _ in range(rnd.choice([1, 1, 2, 2, 3])):
            k, v = gen_item(rnd)
            items[k] = v
        return items
    if r < 0.75:
        out = []
        for _ in range(rnd.choice([2, 2, 3])):
            d = {}
            for _ in range(rnd.choice([1, 2])):
                k, v = gen_item(rnd)
                d[k] = v
            out.append(d)
        return out
    if r < 0.90:
        return rnd.choice([["kw1", "kw*2"], ["a", "b", "c"], "single", ["x", 1], [7, 8], "*wild*"])
    return {("|" + rnd.choice(["contains", "endswith", "re", "contains|all"])): rnd.choice(["k", ["k1", "k2"]])}


CONDS_1 = ["sel", "not sel"]
CONDS_2 = ["sel and flt", "sel or flt", "sel and not flt", "not (sel or flt)", "not sel and not flt", "1 of them", "all of them",
           "not 1 of them", "sel or not flt", "not (sel and flt)"]
CONDS_3 = ["sel and (flt or sel2)", "sel or flt and sel2", "(sel or flt) and sel2", "sel and not (flt or sel2)", "1 of sel* and not flt",
           "all of sel* or flt", "not (sel and flt) or sel2", "sel and flt and sel2", "sel or flt or sel2", "not 1 of sel* and flt",
           "sel and not flt and not sel2", "not (not sel or flt) and sel2", "1 of sel* or all of them", "sel or (flt and (sel2 or sel))"]


def gen_cfg(rnd):
    c = {"prec": rnd.choice(qsyntax.PRECS) if rnd.random() < 0.7 else ("not", "and", "or"),
         "parenthesize": rnd.random() < 0.25, "orAsIn": rnd.random() < 0.5, "andAsIn": rnd.random() < 0.4,
         "inAllowWild": rnd.random() < 0.5, "notAsNotEq": rnd.random() < 0.12,
         "sw": rnd.random() < 0.6, "ew": rnd.random() < 0.6, "ct": rnd.random() < 0.6, "wm": rnd.random() < 0.4,
         "swSpecial": rnd.random() < 0.3, "ewSpecial": rnd.random() < 0.3, "ctSpecial": rnd.random() < 0.3,
         "cased": rnd.choice(["all", "all", "match"]), "explicitNotExists": rnd.random() < 0.5, "nativeCidr": rnd.random() < 0.5}
    c["prec"] = list(c["prec"])
    return c


def gen_cases(tier, seed, gen, effort):
    rnd = random.Random(seed * 9176 + 1)
    thorough = tier == "thorough"
    n = (1800 if not thorough else 30000) * effort
    cases = []
    for _ in range(n):
        k = rnd.choice([1, 2, 2, 3, 3])
        names = ["sel", "flt", "sel2"][:k]
        dets = {nm: gen_det(rnd) for nm in names}
        conds = rnd.choice({1: CONDS_1, 2: CONDS_2, 3: CONDS_3}[k])
        if rnd.random() < 0.1:
            conds = [conds, rnd.choice({1: CONDS_1, 2: CONDS_2, 3: CONDS_3}[k])]
        for _ in range(2 if not thorough else 3):
            cases.append({"dets": dets, "cond": conds, "cfg": gen_cfg(rnd)})
    # all 6 precedences x parenthesize on a fixed rule family (systematic part)
    fam = [({"sel": {"f": "a"}, "flt": {"g": 1}, "sel2": {"h_1|contains": ["x", "y"]}}, c) for c in CONDS_3]
    for dets, cond in fam:
        for prec in qsyntax.PRECS:
            for par in (False, True):
                cfg = {"prec": list(prec), "parenthesize": par, "orAsIn": False, "andAsIn": False, "inAllowWild": False, "notAsNotEq": False,
                       "sw": True, "ew": True, "ct": True, "wm": False, "swSpecial": False, "ewSpecial": False, "ctSpecial": False,
                       "cased": "all", "explicitNotExists": False, "nativeCidr": True}
                cases.append({"dets": dets, "cond": cond, "cfg": cfg})
    return cases, False


_bk = {}


def backend_for(cfg):
    key = repr(sorted(cfg.items()))
    if key not in _bk:
        _bk[key] = qsyntax.make_backend(cfg)
    return _bk[key]()


def run_impl(case):
    from sigma.collection import SigmaCollection
    try:
        coll = SigmaCollection.from_dicts([{"title": "t", "logsource": {"category": "c"},
                                            "detection": {**case["dets"], "condition": case["cond"]}}])
        b = backend_for(case["cfg"])
        qs = b.convert(coll)
        return {"outcome": "ok", "queries": qs}
    except NotImplementedError as e:
        return {"outcome": "unsupported", "msg": str(e)[:100]}
    except Exception as e:
        return {"outcome": outcome_of_exception(e), "msg": str(e)[:160]}


def det_json(d):
    if isinstance(d, dict):
        return {"map": [[cps(k), [plain(v) for v in (val if isinstance(val, list) else [val])]] for k, val in d.items()]}
    if isinstance(d, list):
        if all(not isinstance(x, (dict, list)) for x in d):
            return {"values": [plain(v) for v in d]}
        return {"list": [det_json(x) for x in d]}
    return {"values": [plain(d)]}


def make_request(case, impl, gen):
    conds = case["cond"] if isinstance(case["cond"], list) else [case["cond"]]
    text = repr(case["dets"])
    import re as _re
    wc = sorted({c for c in text if ord(c) > 127 and _re.match(r"\w", c)})
    base = {"op": "rule.batch", "dets": [{"name": cps(n), "det": det_json(d)} for n, d in case["dets"].items()],
            "cfg": {"prec": case["cfg"]["prec"], "nativeCidr": case["cfg"]["nativeCidr"]}, "wordChars": cps("".join(wc))}
    g = gen.get("B64")
    if g:
        base["tables"] = {"starts": g["starts"], "cuts": g["cuts"]}
    items = []
    for i, c in enumerate(conds):
        it = {"cond": cps(c)}
        if impl["outcome"] == "ok" and i < len(impl["queries"]):
            try:
                it["query"] = qsyntax.tokenize(impl["queries"][i])
            except qsyntax.Tokenize as e:
                it["tokErr"] = str(e)
        items.append(it)
    base["items"] = items
    return base


def judge(case, impl, reply):
    io = impl["outcome"]
    cfg = case["cfg"]
    key = (case["dets"], case["cond"], sorted(cfg.items()))
    conds = case["cond"] if isinstance(case["cond"], list) else [case["cond"]]
    tags = [f"impl:{io.split(':')[0]}", f"prec:{'-'.join(cfg['prec'])}", f"paren:{cfg['parenthesize']}"]
    nt = True
    if io.startswith("other:"):
        return Verdict("violation", f"non-Sigma exception {io}: {impl.get('msg')} for {case['dets']} / {case['cond']}", nt, key, tags=tuple(tags))
    results = reply["items"]
    if io == "unsupported":
        return Verdict("ok", "", False, key, tags=tuple(tags + ["unjudged:unsupported"]))
    spec_errs = [r for r in results if "specErr" in r]
    if io.startswith("sigma:"):
        if spec_errs:
            return Verdict("ok", "", False, key, tags=tuple(tags + ["both-reject"]))
        # the specification reads the rule, the implementation rejects it
        if "cased" in repr(case["dets"]) and "re" in repr(case["dets"]):
            pass
        return Verdict("violation", f"valid rule rejected with {io}: {impl.get('msg')} :: {case['dets']} / {case['cond']}", nt, key, tags=tuple(tags))
    if len(impl["queries"]) != len(conds):
        return Verdict("violation", f"{len(conds)} conditions but {len(impl['queries'])} queries: {impl['queries']}", nt, key, tags=tuple(tags))
    for c, q, r in zip(conds, impl["queries"], results):
        if "tokErr" in r:
            return Verdict("violation", f"emitted query is not well-formed in the backend's own syntax ({r['tokErr']}): {q!r}", nt, key, tags=tuple(tags))
        if "specErr" in r:
            if r["specErr"] == "condition" and "selector" in str(r.get("detail")):
                tags.append("unjudged:empty-selector"); continue
            return Verdict("violation", f"rule is not admissible per specification ({r['specErr']}: {r.get('detail')}) but was converted to {q!r} :: {case['dets']}", nt, key, tags=tuple(tags))
        if r.get("tooMany"):
            tags.append("unjudged:too-many-atoms"); continue
        fid = "D6" if cfg["notAsNotEq"] else ("D27" if (cfg["prec"][0] != "not" and not cfg["explicitNotExists"] and _negated_exists(case["dets"])) else None)
        if r.get("readErr"):
            return Verdict("violation", f"query {q!r} cannot be read with precedence {cfg['prec']} (unbalanced / operator without operand) :: {case['dets']} / {c}", nt, key, finding=fid, tags=tuple(tags))
        if not r["equal"]:
            return Verdict("violation", (f"condition {c!r} over {case['dets']} under {short(cfg)} -> {q!r}: read with precedence {cfg['prec']} it is "
                                         f"{not r['specValue']} where the rule is {r['specValue']} when exactly these atoms hold: {show_atoms(r['trueAtoms'])}; "
                                         f"atoms only in query: {show_atoms(r['extraAtoms'])}; only in rule: {show_atoms(r['missingAtoms'])}"),
                           nt, key, finding=fid, tags=tuple(tags))
        tags.append(f"atoms:{min(r['natoms'], 9)}")
        if " in " in q or "[in " in q: tags.append("inlist")
        for k in ("[sw ", "[ew ", "[ct ", "[wm ", "[csw", "[ncs", "[nex", "[cidr"):
            if k in q: tags.append("op:" + k.strip("[ "))
    return Verdict("ok", "", nt, key, tags=tuple(tags))


def _negated_exists(dets):
    """does the rule contain an item `field|exists: false` (rendered as NOT exists(...) from inside the atom conversion)?"""
    def walk(d):
        if isinstance(d, dict):
            return any(("|exists" in k and ((v is False) != ("|neq" in k and False))) and v is False for k, v in d.items())
        if isinstance(d, list):
            return any(walk(x) for x in d)
        return False
    return any(walk(d) for d in dets.values())


def short(cfg):
    on = [k for k, v in cfg.items() if v is True]
    return f"prec={'>'.join(cfg['prec'])} {' '.join(on)} cased={cfg['cased']}"


def show_atoms(atoms):
    from .common import uncps
    out = []
    for a in atoms or []:
        f = uncps(a["f"]) if a.get("f") is not None else "<kw>"
        if a["k"] == "str":
            from .c05 import show
            out.append(f"{f}{'≡' if a['cased'] else '='}{show(a['pat'])!r}")
        else:
            rest = {k: (uncps(v) if isinstance(v, list) else v) for k, v in a.items() if k not in ("k", "f")}
            out.append(f"{a['k']}({f},{rest})")
    return "[" + ", ".join(out) + "]"


def shrink(case, v, evaluate):
    cur, curv = case, v
    improved = True
    while improved:
        improved = False
        cands = []
        for nm, d in cur["dets"].items():
            if isinstance(d, dict) and len(d) > 1:
                for k in d:
                    nd = dict(cur["dets"]); nd[nm] = {kk: vv for kk, vv in d.items() if kk != k}
                    cands.append(dict(cur, dets=nd))
            if isinstance(d, list) and len(d) > 1:
                for i in range(len(d)):
                    nd = dict(cur["dets"]); nd[nm] = d[:i] + d[i + 1:]
                    cands.append(dict(cur, dets=nd))
            if isinstance(d, dict):
                for k, val in d.items():
                    if isinstance(val, list) and len(val) > 1:
                        for i in range(len(val)):
                            nd = dict(cur["dets"]); nd[nm] = dict(d); nd[nm][k] = val[:i] + val[i + 1:]
                            cands.append(dict(cur, dets=nd))
        for k2, val in cur["cfg"].items():
            if val is True and k2 != "notAsNotEq":
                cands.append(dict(cur, cfg=dict(cur["cfg"], **{k2: False})))
        if isinstance(cur["cond"], list) and len(cur["cond"]) > 1:
            cands += [dict(cur, cond=c) for c in cur["cond"]]
        for c, i, r, vv in evaluate(cands):
            if vv.status == "violation" and vv.finding == curv.finding:
                cur, curv, improved = c, vv, True
                break
    return cur, curv
