"""C12 — each pipeline transformation equals its documented source-level rewrite.

For a rule and one built-in transformation (or a short chain / a nested pipeline) two things are compared as
truth tables over all atoms (Lean driver `rule.sem`):
  * the query the real backend emits for the rule converted *through* a pipeline containing the transformation,
  * the Lean specification reading of the rule document *rewritten by hand* as the transformation is documented
    (the rewriters below are written from the documentation, not from the code).
Identity instances (a regular expression matching nothing, an empty mapping, a placeholder include list naming
nothing, a condition scope that matches nothing) must leave every query unchanged."""
from __future__ import annotations
import copy, random, re
from .common import Verdict, cps, outcome_of_exception
from . import qsyntax, c01
from .c03 import plain

ID = "C12"
GEN = ["Mods"]
RULE = ("rules as in C01 (smaller pool) x single transformations with parameter variations {field_name_mapping 1:1, 1:N, "
        "keyword-to-field; field_name_prefix; field_name_suffix; field_name_prefix_mapping; drop_detection_item scoped by field; "
        "add_condition plain/negated/templated; replace_string; map_string 1:1/1:N; case lower/upper; set_value; convert_type; "
        "nest of two; identity instances of each} x condition scopes (field include/exclude); distinct = distinct (rule, "
        "transformation); non-trivial = the transformation changes at least one atom or is an identity instance")
ASSUMPTIONS = c01.ASSUMPTIONS[:2] + [
    "the documented rewrites are implemented in this harness (Python) and interpreted by the Lean rule semantics",
    "Python re performs the substitutions of replace_string (the substitution function is a parameter of the rewrite)",
]
CFG = {"prec": ["not", "and", "or"], "parenthesize": False, "orAsIn": False, "andAsIn": False, "inAllowWild": False, "notAsNotEq": False,
       "sw": True, "ew": True, "ct": True, "wm": False, "cased": "all", "explicitNotExists": False, "nativeCidr": True}
FIELDS = ["fieldA", "fieldB", "win.proc", "win.user"]
STRS = ["abc", "Abc*", "*x y*", "a?c", "val", "a\\*b", "C:\\\\path\\\\x", "foo"]


def gen_rule(rnd):
    dets = {}
    for nm in rnd.sample(["sel", "flt", "sel2"], rnd.choice([1, 2, 2, 3])):
        r = rnd.random()
        if r < 0.7:
            d = {}
            for _ in range(rnd.choice([1, 2, 2])):
                f = rnd.choice(FIELDS)
                m = rnd.choice(["", "", "|contains", "|startswith", "|cased", "|contains|all", "|fieldref"])
                if m == "|fieldref":
                    d[f + m] = rnd.choice(FIELDS)
                elif rnd.random() < 0.6:
                    d[f + m] = rnd.choice(STRS)
                else:
                    d[f + m] = [rnd.choice(STRS), rnd.choice(STRS)] if m != "" or rnd.random() < 0.7 else rnd.choice([1, 5])
            dets[nm] = d
        elif r < 0.85:
            dets[nm] = [{rnd.choice(FIELDS): rnd.choice(STRS)}, {rnd.choice(FIELDS): rnd.choice(STRS)}]
        else:
            dets[nm] = rnd.choice([["kw1", "kw*2"], "single", ["x", "y z"]])
    names = list(dets)
    conds = {1: ["{0}", "not {0}"], 2: ["{0} and {1}", "{0} or not {1}", "1 of them"], 3: ["{0} and ({1} or {2})", "all of them", "{0} and not 1 of sel*"]}[len(names)]
    return {"dets": dets, "cond": rnd.choice(conds).format(*names), "logsource": {"category": "cat", "product": "prod"}}


def gen_transformation(rnd):
    kind = rnd.choice(["map11", "map1n", "kw2field", "prefix", "suffix", "prefixmap", "drop", "addcond", "addcond_neg", "addcond_tpl",
                       "replace", "replace_id", "mapstr", "mapstr_n", "mapstr_id", "case_lower", "case_upper", "setvalue", "convert_str",
                       "map_empty", "ph_id", "scope_none", "nest"])
    scope = rnd.choice([None, None, ("include", ["fieldA"]), ("exclude", ["fieldA", "win.proc"])])
    return {"kind": kind, "scope": scope}


def gen_cases(tier, seed, gen, effort):
    rnd = random.Random(seed * 8111 + 12)
    thorough = tier == "thorough"
    return [{"rule": gen_rule(rnd), "t": gen_transformation(rnd)} for _ in range((2500 if not thorough else 40000) * effort)], False


# ------------------------------------------------------------------ pipeline YAML for a transformation
def t_yaml(t):
    k = t["kind"]
    d = {
        "map11": {"type": "field_name_mapping", "mapping": {"fieldA": "mappedA", "win.user": "user"}},
        "map1n": {"type": "field_name_mapping", "mapping": {"fieldA": ["m1", "m2"]}},
        "kw2field": {"type": "field_name_mapping", "mapping": {None: "msg"}},
        "prefix": {"type": "field_name_prefix", "prefix": "p."},
        "suffix": {"type": "field_name_suffix", "suffix": ".s"},
        "prefixmap": {"type": "field_name_prefix_mapping", "mapping": {"win.": "w_"}},
        "drop": {"type": "drop_detection_item"},
        "addcond": {"type": "add_condition", "conditions": {"idx": "main", "src": ["a", "b"]}},
        "addcond_neg": {"type": "add_condition", "conditions": {"idx": "excluded"}, "negated": True},
        "addcond_tpl": {"type": "add_condition", "conditions": {"idx": "$category-$product"}, "template": True},
        "replace": {"type": "replace_string", "regex": "^a", "replacement": "X"},
        "replace_id": {"type": "replace_string", "regex": "ZZZZ", "replacement": "Y"},
        "mapstr": {"type": "map_string", "mapping": {"abc": "mapped", "val": "other"}},
        "mapstr_n": {"type": "map_string", "mapping": {"abc": ["m1", "m2"], "foo": ["f1"]}},
        "mapstr_id": {"type": "map_string", "mapping": {}},
        "case_lower": {"type": "case", "method": "lower"},
        "case_upper": {"type": "case", "method": "upper"},
        "setvalue": {"type": "set_value", "value": "fixed"},
        "convert_str": {"type": "convert_type", "target_type": "str"},
        "map_empty": {"type": "field_name_mapping", "mapping": {}},
        "ph_id": {"type": "wildcard_placeholders", "include": ["nosuchplaceholder"]},
        "scope_none": {"type": "field_name_suffix", "suffix": ".never", "field_name_conditions": [{"type": "include_fields", "fields": ["nosuchfield"]}]},
    }
    if k == "nest":
        return {"type": "nest", "items": [{"type": "field_name_mapping", "mapping": {"fieldA": "mappedA"}}, {"type": "field_name_suffix", "suffix": ".s"}]}
    out = copy.deepcopy(d[k])
    sc = t["scope"]
    if sc and k in ("map11", "prefix", "suffix", "drop", "replace", "case_lower", "case_upper", "setvalue", "mapstr"):
        out["field_name_conditions"] = [{"type": "include_fields" if sc[0] == "include" else "exclude_fields", "fields": sc[1]}]
    elif k == "drop":
        out["field_name_conditions"] = [{"type": "include_fields", "fields": ["fieldB"]}]
    return out


# ------------------------------------------------------------------ documented rewrites on the rule document
def in_scope(t, field):
    sc = t["scope"]
    k = t["kind"]
    if k == "drop" and not sc:
        return field == "fieldB"
    if not sc or k not in ("map11", "prefix", "suffix", "drop", "replace", "case_lower", "case_upper", "setvalue", "mapstr"):
        return True
    if field is None:
        return sc[0] == "exclude"
    return (field in sc[1]) == (sc[0] == "include")


def split_key(key):
    f, *mods = key.split("|")
    return (f or None), mods


def unesc(s):
    """plain text of a wildcard-free Sigma string literal, or None if it has wildcards"""
    out, i = [], 0
    while i < len(s):
        if s[i] == "\\" and i + 1 < len(s) and s[i + 1] in "\\*?":
            out.append(s[i + 1]); i += 2
        elif s[i] in "*?":
            return None
        else:
            out.append(s[i]); i += 1
    return "".join(out)


def rewrite_value(t, v, mods):
    """-> list of replacement values (documented value transformations work on the plain string form)"""
    k = t["kind"]
    if k == "setvalue":
        return ["fixed"]
    if not isinstance(v, str):
        if k == "convert_str" and isinstance(v, (int, float)) and not isinstance(v, bool):
            return [str(v)]
        if k == "replace" and isinstance(v, (int, float)) and not isinstance(v, bool):
            return [re.sub("^a", "X", str(v))]
        return [v]
    if k == "replace":
        return [re.sub("^a", "X", v)]
    if k in ("mapstr", "mapstr_n"):
        m = {"mapstr": {"abc": "mapped", "val": "other"}, "mapstr_n": {"abc": ["m1", "m2"], "foo": ["f1"]}}[k]
        r = m.get(v)
        if r is None:
            return [v]
        return r if isinstance(r, list) else [r]
    if k == "case_lower":
        return [v.lower()]
    if k == "case_upper":
        return [v.upper()]
    return [v]


VALUE_KINDS = ("replace", "mapstr", "mapstr_n", "case_lower", "case_upper", "setvalue", "convert_str")


def rewrite_item(t, key, val):
    """one map entry -> fragments to AND: ('map', key, values) | ('or', [(key, values)...]); [] = dropped; None = not expressible"""
    k = t["kind"]
    field, mods = split_key(key)
    vals = val if isinstance(val, list) else [val]
    ms = "".join("|" + m for m in mods)
    is_ref = "fieldref" in mods
    # a field name condition matches a detection item through its field *or* through a field it references
    item_in = in_scope(t, field) or (is_ref and any(in_scope(t, v) for v in vals))
    if not item_in:
        return [("map", key, vals)]
    if k == "drop":
        return []
    if k in VALUE_KINDS:
        if "re" in mods or (is_ref and k != "setvalue"):
            return [("map", key, vals)]
        if "contains" in mods or "startswith" in mods or "endswith" in mods:
            return None      # value transformations see the value after the modifiers added wildcards: not expressible at source level here
        new = []
        for v in vals:
            new += rewrite_value(t, v, mods)
        if k == "setvalue":
            key = (field or "") + "".join("|" + m for m in mods if m not in ("cased", "fieldref"))     # the configured value replaces value *and* type
        return [("map", key, new)]

    def rn(f):
        if f is None:
            return [None]
        if k == "map11":
            return [{"fieldA": "mappedA", "win.user": "user"}.get(f, f)]
        if k == "map1n":
            return ["m1", "m2"] if f == "fieldA" else [f]
        if k == "prefix":
            return ["p." + f]
        if k == "suffix":
            return [f + ".s"]
        if k == "prefixmap":
            return ["w_" + f[4:]] if f.startswith("win.") else [f]
        if k == "nest":
            return [{"fieldA": "mappedA"}.get(f, f) + ".s"]
        return [f]
    if k in ("map11", "map1n", "prefix", "suffix", "prefixmap", "nest"):
        if is_ref:
            newvals = []
            for v in vals:
                newvals += rn(v) if in_scope(t, v) else [v]
            vals = newvals
        targets = rn(field) if in_scope(t, field) else [field]
        if len(targets) == 1:
            return [("map", (targets[0] or "") + ms, vals)]
        return [("or", [((x or "") + ms, vals) for x in targets])]
    return [("map", key, vals)]


def pv(vals):
    return [plain(v) for v in vals]


def rewrite_det(t, d):
    """-> Det JSON, or None if the documented rewrite is not expressible here (case skipped)"""
    k = t["kind"]
    if isinstance(d, dict):
        parts, flat = [], []
        for key, val in d.items():
            r = rewrite_item(t, key, val)
            if r is None:
                return None
            for x in r:
                if x[0] == "map":
                    flat.append([cps(x[1]), pv(x[2])])
                else:
                    parts.append({"list": [{"map": [[cps(kk), pv(vv)]]} for kk, vv in x[1]]})
        if not flat and not parts:
            return "EMPTY"
        if not parts:
            return {"map": flat}
        return {"all": ([{"map": flat}] if flat else []) + parts}
    if isinstance(d, list) and all(not isinstance(x, (dict, list)) for x in d) or not isinstance(d, (dict, list)):
        vals = d if isinstance(d, list) else [d]
        if k == "drop" and in_scope(t, None):
            return "EMPTY"
        if k == "kw2field":
            # keyword -> field with substring semantics
            return {"map": [[cps("msg|contains"), pv(vals)]]} if all(isinstance(v, str) for v in vals) else None
        if k in VALUE_KINDS and in_scope(t, None):
            new = []
            for v in vals:
                new += rewrite_value(t, v, [])
            return {"values": pv(new)}
        return {"values": pv(vals)}
    out = []
    for x in d:
        r = rewrite_det(t, x)
        if r is None:
            return None
        if r != "EMPTY":
            out.append(r)
    return {"list": out} if out else "EMPTY"


def rewrite_rule(case):
    t = case["t"]
    k = t["kind"]
    dets = {}
    cond = case["rule"]["cond"]
    for nm, d in case["rule"]["dets"].items():
        r = rewrite_det(t, d)
        if r is None:
            return None
        if r == "EMPTY":
            return None          # a detection emptied by dropping: its operand vanishes (C02 'modelled, not judged')
        dets[nm] = r
    if k == "addcond":
        dets["_added"] = {"map": [[cps("idx"), pv(["main"])], [cps("src"), pv(["a", "b"])]]}
        cond = f"_added and ({cond})"
    elif k == "addcond_neg":
        dets["_added"] = {"map": [[cps("idx"), pv(["excluded"])]]}
        cond = f"not _added and ({cond})"
    elif k == "addcond_tpl":
        dets["_added"] = {"map": [[cps("idx"), pv(["cat-prod"])]]}
        cond = f"_added and ({cond})"
    return dets, cond


def run_impl(case):
    from sigma.collection import SigmaCollection
    from sigma.processing.pipeline import ProcessingPipeline
    try:
        pl = ProcessingPipeline.from_dict({"name": "p", "priority": 1, "transformations": [t_yaml(case["t"])]})
        coll = SigmaCollection.from_dicts([{"title": "t", "logsource": case["rule"]["logsource"],
                                            "detection": {**copy.deepcopy(case["rule"]["dets"]), "condition": case["rule"]["cond"]}}])
        qs = qsyntax.make_backend(CFG)(pl).convert(coll)
        ref = None
        if case["t"]["kind"] in ("replace_id", "mapstr_id", "map_empty", "ph_id", "scope_none"):
            coll2 = SigmaCollection.from_dicts([{"title": "t", "logsource": case["rule"]["logsource"],
                                                 "detection": {**copy.deepcopy(case["rule"]["dets"]), "condition": case["rule"]["cond"]}}])
            ref = qsyntax.make_backend(CFG)().convert(coll2)
        return {"outcome": "ok", "queries": qs, "ref": ref}
    except NotImplementedError as e:
        return {"outcome": "unsupported", "msg": str(e)[:100]}
    except Exception as e:
        return {"outcome": outcome_of_exception(e), "msg": str(e)[:200]}


def make_request(case, impl, gen):
    rw = rewrite_rule(case)
    if rw is None or impl["outcome"] != "ok":
        return {"op": "ping"}
    dets, cond = rw
    it = {"cond": cps(cond)}
    try:
        it["query"] = qsyntax.tokenize(impl["queries"][0])
    except qsyntax.Tokenize as e:
        it["tokErr"] = str(e)
    return {"op": "rule.batch", "dets": [{"name": cps(n), "det": d} for n, d in dets.items()], "cfg": {"prec": CFG["prec"], "nativeCidr": True},
            "wordChars": [], "items": [it]}


def _d3(case):
    """string value with a literal backslash directly before a wildcard / escaped wildcard / backslash, touched by a string-form transformation"""
    return case["t"]["kind"] in ("replace", "replace_id", "case_lower", "case_upper") and re.search(r"\\\\\\\\[*?\\\\]|\\\\\\\\$", repr(case["rule"]["dets"])) is not None


def _has_number(d):
    if isinstance(d, dict):
        return any(_has_number(v) for v in d.values())
    if isinstance(d, list):
        return any(_has_number(v) for v in d)
    return isinstance(d, (int, float)) and not isinstance(d, bool)


def judge(case, impl, reply):
    io = impl["outcome"]
    k = case["t"]["kind"]
    key = (case["rule"], case["t"])
    tags = [f"kind:{k}", f"impl:{io.split(':')[0]}", f"scope:{case['t']['scope'][0] if case['t']['scope'] else 'none'}"]
    fid = "D3" if _d3(case) else ("D35" if (k in ("replace", "replace_id") and _has_number(case["rule"]["dets"])) else None)
    if io.startswith("other:"):
        return Verdict("violation", f"{io}: {impl.get('msg')} for transformation {t_yaml(case['t'])} on {case['rule']['dets']}", True, key, finding=fid, tags=tuple(tags))
    if io != "ok":
        return Verdict("ok", "", False, key, tags=tuple(tags + ["unjudged:" + io.split(":")[0]]))
    if impl["ref"] is not None and impl["queries"] != impl["ref"]:
        return Verdict("violation", f"identity instance {t_yaml(case['t'])} changed the query of {case['rule']['dets']} / {case['rule']['cond']}: {impl['queries']} instead of {impl['ref']}",
                       True, key, finding=fid, tags=tuple(tags))
    if "items" not in reply:
        return Verdict("ok", "", False, key, tags=tuple(tags + ["unjudged:rewrite-not-expressible"]))
    r = reply["items"][0]
    if "tokErr" in r:
        return Verdict("violation", f"query not well-formed ({r['tokErr']}): {impl['queries']}", True, key, finding=fid, tags=tuple(tags))
    if "specErr" in r:
        if r["specErr"] == "condition":
            return Verdict("ok", "", False, key, tags=tuple(tags + ["unjudged:empty-selector"]))
        return Verdict("drift", f"rewritten document not readable by the specification: {r}", True, key, tags=tuple(tags))
    if r.get("tooMany"):
        return Verdict("ok", "", False, key, tags=tuple(tags + ["unjudged:too-many-atoms"]))
    if r.get("readErr") or not r.get("equal"):
        return Verdict("violation", (f"transformation {t_yaml(case['t'])} on {case['rule']['dets']} / {case['rule']['cond']!r}: emitted {impl['queries'][0]!r} is not equivalent to the "
                                     f"documented rewrite {rewrite_rule(case)[1]!r}: differs when exactly {c01.show_atoms(r.get('trueAtoms'))} hold; only in query "
                                     f"{c01.show_atoms(r.get('extraAtoms'))}; only in rewrite {c01.show_atoms(r.get('missingAtoms'))}"), True, key, finding=fid, tags=tuple(tags))
    return Verdict("ok", "", True, key, tags=tuple(tags))
