"""C12 — each pipeline transformation equals its documented source-level rewrite.

For a rule and one built-in transformation (or a short chain / a nested pipeline) two things are compared as
truth tables over all atoms (Lean driver `rewrite.case`):
  * the query the real backend emits for the rule converted *through* a pipeline containing the transformation,
  * the Lean specification reading (`Rule.ruleBE`) of the rule document rewritten by the **Lean** function that
    writes down the documented effect of the transformation (`lean/SigmaVerif/Spec/Rewrite.lean`, theorems about
    these functions in `Props/C12.lean`).  The driver receives the ORIGINAL document and the description of the
    transformation (built from the pipeline YAML by `tr_desc`), rewrites, and judges as `rule.sem` does.
The Python rewriters below (written from the documentation, not from the code) are kept as a second, independent
implementation: the document they produce is compared with the document the Lean rewrite produced; a difference is
reported as drift (one of the two misreads the documentation).  The `fields` list of the rule after the pipeline is
compared with the `fields` list of the Lean-rewritten document.
Identity instances (a regular expression matching nothing, an empty mapping, a placeholder include list naming
nothing, a condition scope that matches nothing - also one that matches nothing because it is negated) must leave every
query unchanged.  A condition scope is the condition group of the processing item as the pipeline YAML spells it
(`field_name_conditions`, `field_name_cond_op`, `field_name_cond_not`); the Lean rewrite receives the group
(`Rewrite.groupFields` / `groupItems`).
Hash-field splitting (`hashes_fields`) has its own stream: rules with hash lists x all parameters of the item; the oracle is
`Rewrite.hashesFields` (one item per algorithm whatever the spelling of its name in the rule, OR-linked; an item without a
valid entry is the documented failure and must fail in the code as well)."""
from __future__ import annotations
import copy, json, random, re
from .common import Verdict, cps, outcome_of_exception
from . import qsyntax, c01
from .c03 import plain

ID = "C12"
GEN = ["Mods", "Transf"]
RULE = ("rules as in C01 (smaller pool) x single transformations with parameter variations {field_name_mapping 1:1, 1:N, "
        "keyword-to-field; field_name_prefix; field_name_suffix; field_name_prefix_mapping; drop_detection_item scoped by field; "
        "add_condition plain/negated/templated; replace_string; map_string 1:1/1:N; case lower/upper; set_value; convert_type; "
        "add_field/remove_field/set_field; nest of two; identity instances of each; 35% of the cases: one item or a nest of 2-3 items with random "
        "parameters (mappings onto existing names, several prefixes, regexes, set_value of every plain type, templates, random include/exclude field lists)} x condition scopes (field include/exclude); distinct = distinct (rule, "
        "transformation); non-trivial = the transformation changes at least one atom or is an identity instance"
        "; 25% after the same backend object converted another rule; a fixed stream of hand-picked rules x every named transformation x scopes; placeholder rules x value/wildcard placeholders (also inside a nest)"
        "; fixed rare-parameter pairs (added condition + in-place items after a prior rule, set_field + add_field after a prior rule, a prefix occurring twice in a field name, map_string to '' and [])"
        "; condition scopes = condition groups as written in pipeline YAML: one or two field name conditions, field_name_cond_op and/or, field_name_cond_not, and the negation "
        "flags of the groups that have no conditions (detection_item_cond_not, rule_cond_not: no effect); named kinds also under negated scopes; one-to-many prefix mapping as a named kind; "
        "a fixed stream of field names over a two-letter alphabet (prefix and remainder share characters) x prefix / suffix / prefix mappings with scalar and list targets"
        "; field references of every comparison kind (fieldref, fieldref|startswith, fieldref|endswith, fieldref|contains; one or two referenced fields) in the random and the hand-picked rules; "
        "keywords whose first / last character is a single- or multi-character wildcard or an escaped wildcard, mapped to one field and to a list of fields (named kind kw2field_n, Lean kwToFields); "
        "hash stream: rules with Hashes/Hash/other hash lists (entries ALGO=hash, ALGO|hash, bare digests, wildcards around them, algorithm names in upper, lower and mixed spelling, entries of no "
        "valid algorithm) x hashes_fields with every parameter (valid_hash_algos, field_prefix, drop_algo_prefix, field_to_parse, field name conditions; also inside a nest before / after a field "
        "mapping), judged by the Lean rewrite Rewrite.hashesFields incl. the documented failure when no entry is valid, plus hand-picked pairs for every entry format")
ASSUMPTIONS = c01.ASSUMPTIONS[:2] + [
    "the documented rewrites are the Lean functions of Spec/Rewrite.lean, interpreted by the Lean rule semantics; the Python rewriters of this harness are a cross-check (drift)",
    "Python re performs the substitutions of replace_string (the substitution function is a parameter of the rewrite, sent as a table over the plain forms of the strings of the rule)",
    "case mapping is ASCII (Lean Char.toLower/toUpper) on the generated alphabet",
]
CFG = {"prec": ["not", "and", "or"], "parenthesize": False, "orAsIn": False, "andAsIn": False, "inAllowWild": False, "notAsNotEq": False,
       "sw": True, "ew": True, "ct": True, "wm": False, "cased": "all", "explicitNotExists": False, "nativeCidr": True}
FIELDS = ["fieldA", "fieldB", "win.proc", "win.user", "win.image", "proc.pid"]
STRS = ["abc", "Abc*", "*x y*", "a?c", "val", "a\\*b", "C:\\\\path\\\\x", "foo"]


def gen_rule(rnd):
    dets = {}
    for nm in rnd.sample(["sel", "flt", "sel2"], rnd.choice([1, 2, 2, 3])):
        r = rnd.random()
        if r < 0.7:
            d = {}
            for _ in range(rnd.choice([1, 2, 2])):
                f = rnd.choice(FIELDS)
                m = rnd.choice(["", "", "|contains", "|startswith", "|cased", "|contains|all", "|fieldref", "|all", "|fieldref" + rnd.choice(REF_KINDS)])
                if m.startswith("|fieldref"):
                    d[f + m] = rnd.choice(FIELDS) if rnd.random() < 0.75 else rnd.sample(FIELDS, 2)
                elif rnd.random() < 0.6:
                    d[f + m] = rnd.choice(STRS)
                else:
                    d[f + m] = [rnd.choice(STRS), rnd.choice(STRS)] if m != "" or rnd.random() < 0.7 else rnd.choice([1, 5])
            dets[nm] = d
        elif r < 0.85:
            dets[nm] = [{rnd.choice(FIELDS): rnd.choice(STRS)}, {rnd.choice(FIELDS): rnd.choice(STRS)}]
        else:
            dets[nm] = rnd.choice([["kw1", "kw*2"], "single", ["x", "y z"], rnd.sample(KEYWORDS, rnd.choice([1, 2]))])
    names = list(dets)
    conds = {1: ["{0}", "not {0}"], 2: ["{0} and {1}", "{0} or not {1}", "1 of them"], 3: ["{0} and ({1} or {2})", "all of them", "{0} and not 1 of sel*"]}[len(names)]
    rule = {"dets": dets, "cond": rnd.choice(conds).format(*names), "logsource": {"category": "cat", "product": "prod"}}
    if rnd.random() < 0.4:
        rule["fields"] = rnd.sample(FIELDS, rnd.choice([1, 2, 3]))
    return rule


TARGETS = ["m1", "m2", "x.y", "fieldB", "win.user", "t_3"]
# a field reference is an equality, a prefix, a suffix or a substring comparison (modifier after `fieldref`)
REF_KINDS = ["", "|startswith", "|endswith", "|contains"]
# keywords with every kind of first / last character: plain, multi- and single-character wildcard, escaped wildcard
KEYWORDS = ["failed login?", "?x", "user=?", "*pre", "suf*", "*both*", "?q?", "what\\?", "\\*lit", "end\\*", "a?c", "*", "?", "x*?", "?*y"]


def rand_cond(rnd):
    return {"type": rnd.choice(["include_fields", "exclude_fields"]), "fields": rnd.sample(FIELDS + ["nosuchfield"], rnd.choice([1, 2, 3]))}


def rand_scope(rnd):
    """-> the condition options of a pipeline item (keys next to `type`): a group of one or two field name conditions, its
    linking and its negation; sometimes the negation flag of a group that has no conditions (without effect)"""
    out = {}
    if rnd.random() < 0.5:
        conds = [rand_cond(rnd)]
        if rnd.random() < 0.3:
            conds.append(rand_cond(rnd))
        out["field_name_conditions"] = conds
        if len(conds) > 1 or rnd.random() < 0.15:
            out["field_name_cond_op"] = rnd.choice(["and", "or"])
        if rnd.random() < 0.4:
            out["field_name_cond_not"] = rnd.choice([True, True, False])
    if rnd.random() < 0.08:
        out["detection_item_cond_not"] = True
    if rnd.random() < 0.08:
        out["rule_cond_not"] = True
    return out


def rand_item(rnd, depth=0):
    """one pipeline item with random parameters, as it would be written in pipeline YAML"""
    ty = rnd.choice(["field_name_mapping", "field_name_mapping", "field_name_prefix", "field_name_suffix", "field_name_prefix_mapping", "drop_detection_item",
                     "add_condition", "replace_string", "map_string", "case", "set_value", "convert_type", "add_field", "remove_field", "set_field"]
                    + (["nest", "nest"] if depth == 0 else []))
    y = {"type": ty}
    scoped = True
    if ty == "field_name_mapping":
        y["mapping"] = {f: (rnd.choice(TARGETS) if rnd.random() < 0.6 else rnd.sample(TARGETS, rnd.choice([2, 3]))) for f in rnd.sample(FIELDS, rnd.choice([1, 2, 3]))}
        if rnd.random() < 0.15:
            y["_kw"] = rnd.choice(["msg", "raw", ["msg", "raw"], ["raw"]])      # the keyword entry (key None) is kept apart: JSON has no null keys
            scoped = False
    elif ty == "field_name_prefix":
        y["prefix"] = rnd.choice(["p.", "_", "x-"])
    elif ty == "field_name_suffix":
        y["suffix"] = rnd.choice([".s", "_raw", "-1"])
    elif ty == "field_name_prefix_mapping":
        y["mapping"] = {a: (rnd.choice(["w_", "x.", ""]) if rnd.random() < 0.6 else rnd.choice([["a.", "b."], ["w_", "v."], ["p.", ""]]))
                        for a in rnd.sample(["win.", "field", "win.p", "zzz", "proc.", "pro"], rnd.choice([1, 2]))}
    elif ty == "drop_detection_item":
        y["field_name_conditions"] = [{"type": rnd.choice(["include_fields", "exclude_fields"]), "fields": rnd.sample(FIELDS, rnd.choice([1, 2]))}]
        if rnd.random() < 0.3:
            y["field_name_cond_not"] = True
        return y
    elif ty == "add_condition":
        y["conditions"] = rnd.choice([{"idx": "main"}, {"src": ["a", "b"], "n": 5}, {"idx": "$category-x", "other|contains": "$product"}, {"k|all": ["u", "v"]}])
        if rnd.random() < 0.4:
            y["negated"] = True
        if rnd.random() < 0.4:
            y["template"] = True
        scoped = False
    elif ty == "replace_string":
        y["regex"] = rnd.choice(["^a", "b", "c$", "[xy]", "Z+", "a(.)c"])
        y["replacement"] = rnd.choice(["X", "", "Q_"])
    elif ty == "map_string":
        y["mapping"] = {plain_form(k): (rnd.choice(["mapped", "other"]) if rnd.random() < 0.6 else rnd.sample(["m1", "m2", "m3"], rnd.choice([1, 2, 3])))
                        for k in rnd.sample(STRS, rnd.choice([0, 1, 2]))}      # keys are plain strings
    elif ty == "case":
        y["method"] = rnd.choice(["lower", "upper"])
    elif ty == "set_value":
        y["value"] = rnd.choice(["fixed", 7, True, None, "with space"])
    elif ty == "convert_type":
        y["target_type"] = "str"
    elif ty == "add_field":
        y["field"] = rnd.choice(["extra", ["e1", "fieldA"]])
        scoped = False
    elif ty == "remove_field":
        y["field"] = rnd.choice(["fieldA", ["fieldB", "nosuchfield"], ["win.proc", "win.proc"]])
        scoped = False
    elif ty == "set_field":
        y["fields"] = rnd.choice([[], ["only.this"], ["a", "b"]])
        scoped = False
    elif ty == "nest":
        y["items"] = [rand_item(rnd, 1) for _ in range(rnd.choice([2, 2, 3]))]
        scoped = False
    if scoped:
        y.update(rand_scope(rnd))
    return y


# ---- hash-field splitting: `Hashes: [ALGO=hash, …]` -> one field per algorithm
HASH_LEN = {"MD5": 32, "SHA1": 40, "SHA256": 64, "SHA512": 128, "IMPHASH": 32}
# digest lengths (hex characters) of the algorithms whose bare digests are recognisable ("can auto-detect hash types based on their length")
BY_LENGTH = [[32, "MD5"], [40, "SHA1"], [64, "SHA256"], [128, "SHA512"]]


def spell(rnd, algo):
    """an algorithm name as rules spell it"""
    return rnd.choice([algo, algo, algo.lower(), algo.capitalize(), algo[0].lower() + algo[1:], "".join(c.lower() if i % 2 else c for i, c in enumerate(algo))])


def gen_hash_entry(rnd):
    r = rnd.random()
    if r < 0.08:
        return rnd.choice(["CRC32=ABCD1234", "abcdef", "TLSH|0011", "=", "MD5=1=2"])      # no valid algorithm / not an entry
    algo = rnd.choice(list(HASH_LEN))
    h = "".join(rnd.choice("0123456789ABCDEF") for _ in range(HASH_LEN[algo]))
    if rnd.random() < 0.2:
        h = h.lower()
    if r < 0.25 and algo != "IMPHASH":
        e = h                                   # a bare digest
    else:
        e = spell(rnd, algo) + rnd.choice(["=", "=", "=", "|"]) + h
    if rnd.random() < 0.15:
        e = rnd.choice(["*", ""]) + e + rnd.choice(["*", "", "?"])
    return e


def gen_hash_rule(rnd):
    dets = {}
    for nm in rnd.sample(["sel", "flt"], rnd.choice([1, 1, 2])):
        f = rnd.choice(["Hashes", "Hashes", "Hash", "FileHash", "hashes"])
        m = rnd.choice(["", "", "", "|contains", "|contains", "|endswith", "|startswith", "|all", "|contains|all"])
        n = rnd.choice([1, 1, 2, 2, 3])
        d = {f + m: gen_hash_entry(rnd) if n == 1 and rnd.random() < 0.6 else [gen_hash_entry(rnd) for _ in range(n)]}
        if rnd.random() < 0.3:
            d[rnd.choice(["fieldA", "win.image|endswith"])] = rnd.choice(["abc", "foo"])
        if rnd.random() < 0.08:
            d["Hash" if not f.startswith("Hash|") and f != "Hash" else "Hashes"] = rnd.choice([5, None, gen_hash_entry(rnd)])
        dets[nm] = d if rnd.random() < 0.85 else [d, {"fieldB": "val"}]
    names = list(dets)
    cond = rnd.choice({1: ["{0}", "not {0}"], 2: ["{0} and not {1}", "{0} or {1}", "1 of them"]}[len(names)]).format(*names)
    rule = {"dets": dets, "cond": cond, "logsource": LS}
    if rnd.random() < 0.2:
        rule["fields"] = ["Hashes", "fieldA"]
    return rule


def gen_hash_item(rnd):
    """a hashes_fields item with every parameter pipeline YAML can give it"""
    y = {"type": "hashes_fields", "valid_hash_algos": rnd.choice([["MD5", "SHA1", "SHA256"], ["MD5", "SHA1", "SHA256", "SHA512", "IMPHASH"], ["SHA256"], ["SHA1", "IMPHASH"]])}
    if rnd.random() < 0.8:
        y["field_prefix"] = rnd.choice(["File", "File", "hash.", "Hashes", "h_"])
    if rnd.random() < 0.2:
        y["drop_algo_prefix"] = rnd.random() < 0.8
    if rnd.random() < 0.25:
        y["field_to_parse"] = rnd.choice([["FileHash"], ["Hash"], ["Hashes", "FileHash", "hashes"], []])
    if rnd.random() < 0.2:
        y["field_name_conditions"] = [{"type": rnd.choice(["include_fields", "exclude_fields"]), "fields": rnd.sample(["Hashes", "Hash", "FileHash", "fieldA"], rnd.choice([1, 2]))}]
        if rnd.random() < 0.3:
            y["field_name_cond_not"] = True
    r = rnd.random()
    if r < 0.1:      # the split fields are fields like any other for the items that follow
        return {"type": "nest", "items": [y, rnd.choice([{"type": "field_name_prefix", "prefix": "p."}, {"type": "field_name_mapping", "mapping": {"FileSHA256": ["a", "b"], "FileMD5": "md5"}}])]}
    if r < 0.2:      # … and a field renamed to `Hashes` before is split
        return {"type": "nest", "items": [{"type": "field_name_mapping", "mapping": {"FileHash": "Hashes"}}, y]}
    return y


def gen_transformation(rnd):
    if rnd.random() < 0.35:
        return {"kind": "rand", "scope": None, "yaml": rand_item(rnd)}
    kind = rnd.choice(NAMED_KINDS)
    scope = rnd.choice([None, None, ("include", ["fieldA"]), ("exclude", ["fieldA", "win.proc"]), ("not_include", ["fieldA", "win.user"]), ("not_exclude", ["fieldB", "win.proc"])])
    return {"kind": kind, "scope": scope}


PRIOR_RULE = {"title": "prior", "logsource": {"category": "othercat", "product": "otherprod", "service": "othersvc"},
              "detection": {"x": {"fieldA": "prior", "win.user|contains": "Prior*", "fieldB": 7}, "kw": ["priorkw"], "condition": "x or kw"}}
PH_VARS = {"p": ["x", "y"], "q": ["only"]}
LS = {"category": "cat", "product": "prod"}
# hand-picked rules: every documented feature of every transformation is met at least once in every run
FIXED_RULES = [
    {"dets": {"sel": {"fieldA|contains|all": ["abc", "foo", "val"], "win.user": "abc"}}, "cond": "sel", "logsource": LS},
    {"dets": {"sel": {"win.image": "abc", "win.name|startswith": "foo", "win.nt|fieldref": "win.idx"}, "flt": {"fieldA": ["abc", "val"]}}, "cond": "sel and not flt", "logsource": LS,
     "fields": ["win.image", "fieldA", "other"]},
    {"dets": {"sel": ["abc", "kw*2"], "flt": {"fieldA|fieldref": "fieldB", "fieldB": 5}}, "cond": "sel or flt", "logsource": LS},
    {"dets": {"sel": [{"fieldA": "abc"}, {"fieldB|endswith": ["foo", "Abc*"]}], "sel2": {"fieldA|cased": "Abc"}}, "cond": "1 of sel*", "logsource": LS},
    {"dets": {"sel": {"fieldA|all": ["abc", "foo"], "fieldB": None}}, "cond": "not sel", "logsource": LS},
    {"dets": {"sel": {"fieldA|contains|all": "abc", "fieldB|all": ["abc"]}}, "cond": "sel", "logsource": LS},      # 'all' with a single value
    # field references compared as suffix / prefix / substring, the referenced field being one the named kinds map
    {"dets": {"sel": {"win.nt|fieldref|endswith": "fieldA", "fieldB|fieldref|startswith": ["win.user", "fieldA"]}, "flt": {"win.image|fieldref|contains": "fieldA"}}, "cond": "sel and not flt", "logsource": LS,
     "fields": ["fieldA"]},
    # keywords whose first / last character is a single-character wildcard, a multi-character wildcard, an escaped wildcard
    {"dets": {"sel": ["failed login?", "?x", "suf*"], "kw2": ["what\\?", "\\*lit"]}, "cond": "sel or kw2", "logsource": LS},
    {"dets": {"sel": ["?q?", "*pre", "x*?"], "flt": {"fieldA": "abc"}}, "cond": "sel and not flt", "logsource": LS},
]
PH_RULES = [
    {"dets": {"sel": {"fieldA|expand": "a%p%b", "fieldB": "v"}}, "cond": "sel", "logsource": LS},
    {"dets": {"sel": {"fieldA|re|i|expand": "a%p%b"}}, "cond": "sel", "logsource": LS},
    {"dets": {"sel": {"fieldA|re|m|s|expand": "^%p%$"}}, "cond": "not sel", "logsource": LS},
    {"dets": {"sel": {"fieldA|expand|all": ["%p%", "z"]}, "flt": {"fieldB|contains|expand": "%q%%p%"}}, "cond": "sel and not flt", "logsource": LS},
    {"dets": {"sel": {"fieldA|expand": ["%p%", "%q%", "lit"]}}, "cond": "sel", "logsource": LS},
    {"dets": {"sel": {"fieldA|contains|all|expand": "%p%", "fieldB|expand|all": "a%p%"}}, "cond": "sel", "logsource": LS},   # 'all' with a single placeholder value
]
NAMED_KINDS = ["map11", "map1n", "kw2field", "kw2field_n", "prefix", "suffix", "prefixmap", "prefixmap_n", "drop", "addcond", "addcond_neg", "addcond_tpl",
               "replace", "replace_id", "mapstr", "mapstr_n", "mapstr_id", "case_lower", "case_upper", "setvalue", "convert_str",
               "map_empty", "ph_id", "scope_none", "scope_none_not", "nest", "add_field", "remove_field", "set_field"]
IDENTITY_KINDS = ("replace_id", "mapstr_id", "map_empty", "ph_id", "scope_none", "scope_none_not")
SCOPED_KINDS = ("map11", "prefix", "suffix", "drop", "replace", "case_lower", "case_upper", "setvalue", "mapstr")
RENAME_KINDS = ("map11", "map1n", "prefix", "suffix", "prefixmap", "prefixmap_n", "nest")
# field names over a two-letter alphabet: the configured prefix / suffix shares characters with the rest of the name
AB_NAMES = [["a", "aa", "a.a"], ["ab", "a.b", "aab"], ["ab.ab", "ab.ba", "ba.ab"]]
AB_ITEMS = [{"type": "field_name_prefix_mapping", "mapping": {"a": "z_"}}, {"type": "field_name_prefix_mapping", "mapping": {"a": ["z_", "y."]}},
            {"type": "field_name_prefix_mapping", "mapping": {"a.": "z_"}}, {"type": "field_name_prefix_mapping", "mapping": {"a.": ["z_", "y."]}},
            {"type": "field_name_prefix_mapping", "mapping": {"ab": "z_"}}, {"type": "field_name_prefix_mapping", "mapping": {"ab": ["z_", "a"]}},
            {"type": "field_name_prefix_mapping", "mapping": {"ab.": "z_", "a": "q"}}, {"type": "field_name_prefix_mapping", "mapping": {"ab.": ["ab.ab.", "b"]}},
            {"type": "field_name_prefix", "prefix": "a."}, {"type": "field_name_suffix", "suffix": ".a"},
            {"type": "field_name_mapping", "mapping": {"a": "aa", "aa": ["a", "ab"], "ab": "a.b"}}]


_H = {"MD5": "987B65CD9B9F4E9A1AFD8F8B48CF64A7", "SHA1": "5F1CBC3D99558307BC1250D084FA968521482025", "SHA256": "A1" * 32}
_HY = {"type": "hashes_fields", "valid_hash_algos": ["MD5", "SHA1", "SHA256"], "field_prefix": "File"}
# every documented entry format x spelling of the algorithm, met in every run
FIXED_HASH_PAIRS = [
    ({"dets": {"sel": {"Hashes": ["SHA1=" + _H["SHA1"], "MD5=" + _H["MD5"]]}}, "cond": "sel", "logsource": LS}, _HY),
    ({"dets": {"sel": {"Hashes": "sha256=" + _H["SHA256"]}}, "cond": "sel", "logsource": LS}, _HY),
    ({"dets": {"sel": {"Hashes": ["MD5=" + _H["MD5"], "md5=" + _H["MD5"][::-1], "Md5|" + "0" * 32]}}, "cond": "not sel", "logsource": LS}, _HY),
    ({"dets": {"sel": {"Hashes|contains": "Sha1=" + _H["SHA1"], "fieldA": "abc"}}, "cond": "sel", "logsource": LS}, _HY),
    ({"dets": {"sel": {"Hash": [_H["SHA1"], "*" + _H["MD5"] + "*", "IMPHASH=" + "1" * 32]}}, "cond": "sel", "logsource": LS}, _HY),
    ({"dets": {"sel": {"Hashes|endswith": ["sha1|" + _H["SHA1"], "CRC32=00"]}, "flt": {"Hashes": "nothing=here"}}, "cond": "sel and not flt", "logsource": LS}, _HY),
    ({"dets": {"sel": {"Hashes": ["sha256=" + _H["SHA256"], "SHA1=" + _H["SHA1"]]}}, "cond": "sel", "logsource": LS}, dict(_HY, drop_algo_prefix=True)),
    ({"dets": {"sel": {"Hashes": "sha256=" + _H["SHA256"], "FileHash": "mD5=" + _H["MD5"]}}, "cond": "sel", "logsource": LS}, dict(_HY, field_to_parse=["FileHash"], field_prefix="")),
]


def gen_cases(tier, seed, gen, effort):
    rnd = random.Random(seed * 8111 + 12)
    thorough = tier == "thorough"
    cases = [{"rule": gen_rule(rnd), "t": gen_transformation(rnd)} for _ in range((2500 if not thorough else 40000) * effort)]
    for c in cases:
        if rnd.random() < 0.25:
            c["prior"] = True
    for r in FIXED_RULES:
        for k in NAMED_KINDS:
            for scope in (None, ("include", ["fieldA"]), ("exclude", ["fieldA", "win.image"]), ("not_include", ["fieldA"]), ("not_exclude", ["fieldA", "win.image"])):
                cases.append({"rule": copy.deepcopy(r), "t": {"kind": k, "scope": scope}, "prior": k.startswith("addcond") or k == "nest"})
    # fixed pairs judged by the Lean rewrite alone (kind "rand"): rare parameter values and item sequences
    R = lambda dets, cond="sel", **kw: dict({"dets": dets, "cond": cond, "logsource": LS}, **kw)
    FIXED_PAIRS = [
        # an added (non-templated) condition followed by in-place transformations, after another rule went through the same pipeline
        (R({"sel": {"fieldA": "abc"}}), {"type": "nest", "items": [{"type": "add_condition", "conditions": {"src": "eventlog", "n": [1, 2]}},
                                                                     {"type": "field_name_prefix", "prefix": "win."}, {"type": "field_name_suffix", "suffix": ".k"}]}, True),
        (R({"sel": {"fieldA": "abc"}}), {"type": "nest", "items": [{"type": "add_condition", "conditions": {"src": "abc"}},
                                                                     {"type": "replace_string", "regex": "^", "replacement": "x"}]}, True),
        # set_field followed by add_field / remove_field, after another rule went through the same pipeline (the list is the rule's own)
        (R({"sel": {"fieldA": "abc"}}, fields=["x"]), {"type": "nest", "items": [{"type": "set_field", "fields": ["a", "b"]}, {"type": "add_field", "field": "extra"},
                                                                              {"type": "remove_field", "field": "a"}]}, True),
        (R({"sel": {"fieldA": "abc"}}), {"type": "nest", "items": [{"type": "set_field", "fields": ["only.this"]}, {"type": "add_field", "field": ["e1", "e2"]}]}, True),
        # the mapped prefix occurs again later in the field name
        (R({"sel": {"win.sub.win.name": "abc", "win.win.": "v", "xwin.a": 1}, "flt": {"f|fieldref": "win.a.win.b"}}, "sel and not flt", fields=["win.win.x", "a.win.b"]),
         {"type": "field_name_prefix_mapping", "mapping": {"win.": "w_"}}, False),
        (R({"sel": {"win.sub.win.name": "abc"}}), {"type": "field_name_prefix_mapping", "mapping": {"win.": ["w_", "v_"]}}, False),
        # mapping to the empty string and to no value at all
        (R({"sel": {"fieldA": ["abc", "foo", "val"], "fieldB": "abc"}}), {"type": "map_string", "mapping": {"abc": "", "foo": []}}, False),
        (R({"sel": {"fieldA|contains|all": ["abc", "val"]}}), {"type": "map_string", "mapping": {"abc": ""}}, False),
    ]
    for r, y, prior in FIXED_PAIRS:
        cases.append({"rule": copy.deepcopy(r), "t": {"kind": "rand", "scope": None, "yaml": y}, "prior": prior})
    for names in AB_NAMES:
        r = R({"sel": {names[0]: "abc", names[1] + "|contains": "val"}, "flt": {"fieldA|fieldref": names[2], names[2]: 5}}, "sel and not flt", fields=[names[1], names[2], "other"])
        for y in AB_ITEMS:
            cases.append({"rule": copy.deepcopy(r), "t": {"kind": "rand", "scope": None, "yaml": copy.deepcopy(y)}})
    # hash-field splitting: rules with hash lists x hashes_fields with all parameters (judged by the Lean rewrite alone)
    for _ in range((500 if not thorough else 8000) * effort):
        cases.append({"rule": gen_hash_rule(rnd), "t": {"kind": "rand", "scope": None, "yaml": gen_hash_item(rnd)}, "prior": rnd.random() < 0.15})
    for r, y in FIXED_HASH_PAIRS:
        cases.append({"rule": copy.deepcopy(r), "t": {"kind": "rand", "scope": None, "yaml": copy.deepcopy(y)}})
    for r in PH_RULES:
        for k in ("ph_value", "ph_wild", "ph_value_nest"):
            if k == "ph_wild" and "|re" in repr(r["dets"]):
                continue      # a wildcard inside a regular expression has no documented rewrite (C17 judges only that no raw placeholder is emitted)
            cases.append({"rule": copy.deepcopy(r), "t": {"kind": k, "scope": None}})
    return cases, False


# ------------------------------------------------------------------ pipeline YAML for a transformation
def _unkw(y):
    if "_kw" in y:
        y["mapping"][None] = y.pop("_kw")
    for x in y.get("items", []):
        _unkw(x)
    return y


def t_yaml(t):
    k = t["kind"]
    if k == "rand":
        return _unkw(copy.deepcopy(t["yaml"]))
    d = {
        "map11": {"type": "field_name_mapping", "mapping": {"fieldA": "mappedA", "win.user": "user"}},
        "map1n": {"type": "field_name_mapping", "mapping": {"fieldA": ["m1", "m2"]}},
        "kw2field": {"type": "field_name_mapping", "mapping": {None: "msg"}},
        "kw2field_n": {"type": "field_name_mapping", "mapping": {None: ["msg", "raw"]}},
        "prefix": {"type": "field_name_prefix", "prefix": "p."},
        "suffix": {"type": "field_name_suffix", "suffix": ".s"},
        "prefixmap": {"type": "field_name_prefix_mapping", "mapping": {"win.": "w_"}},
        "prefixmap_n": {"type": "field_name_prefix_mapping", "mapping": {"win.": ["w_", "v."]}},
        "drop": {"type": "drop_detection_item"},
        "addcond": {"type": "add_condition", "conditions": {"idx": "main", "src": ["a", "b"]}},
        "addcond_neg": {"type": "add_condition", "conditions": {"idx": "excluded"}, "negated": True},
        "addcond_tpl": {"type": "add_condition", "conditions": {"idx": "$category-$product"}, "template": True},
        "replace": {"type": "replace_string", "regex": "^a", "replacement": "X"},
        "replace_id": {"type": "replace_string", "regex": "ZZZZ", "replacement": "Y"},
        "mapstr": {"type": "map_string", "mapping": {"abc": "mapped", "val": "other"}},
        "mapstr_n": {"type": "map_string", "mapping": {"abc": ["m1", "m2"], "foo": ["f1"]}},
        "mapstr_id": {"type": "map_string", "mapping": {}},
        "case_lower": {"type": "case", "method": "lower"},
        "case_upper": {"type": "case", "method": "upper"},
        "setvalue": {"type": "set_value", "value": "fixed"},
        "convert_str": {"type": "convert_type", "target_type": "str"},
        "map_empty": {"type": "field_name_mapping", "mapping": {}},
        "ph_id": {"type": "wildcard_placeholders", "include": ["nosuchplaceholder"]},
        "ph_value": {"type": "value_placeholders", "include": ["p"]},
        "ph_wild": {"type": "wildcard_placeholders", "include": ["p"]},
        "ph_value_nest": {"type": "nest", "items": [{"type": "value_placeholders", "include": ["p"]}]},     # a nested item sees the pipeline's variables
        "add_field": {"type": "add_field", "field": ["extra", "fieldA"]},
        "remove_field": {"type": "remove_field", "field": ["fieldA", "nosuchfield", "fieldA"]},
        "set_field": {"type": "set_field", "fields": ["only.this"]},
        "scope_none": {"type": "field_name_suffix", "suffix": ".never", "field_name_conditions": [{"type": "include_fields", "fields": ["nosuchfield"]}]},
        # a scope that matches nothing because it is negated: "not (every field except nosuchfield)"
        "scope_none_not": {"type": "field_name_suffix", "suffix": ".never", "field_name_conditions": [{"type": "exclude_fields", "fields": ["nosuchfield"]}], "field_name_cond_not": True},
    }
    if k == "nest":
        return {"type": "nest", "items": [{"type": "field_name_mapping", "mapping": {"fieldA": "mappedA"}}, {"type": "field_name_suffix", "suffix": ".s"}]}
    out = copy.deepcopy(d[k])
    sc = t["scope"]
    if sc and k in SCOPED_KINDS:
        out["field_name_conditions"] = [{"type": "include_fields" if sc[0].endswith("include") else "exclude_fields", "fields": sc[1]}]
        if sc[0].startswith("not_"):
            out["field_name_cond_not"] = True
    elif k == "drop":
        out["field_name_conditions"] = [{"type": "include_fields", "fields": ["fieldB"]}]
    return out


# ------------------------------------------------------------------ documented rewrites on the rule document
def scope_negated(t):
    return bool(t["scope"]) and t["kind"] in SCOPED_KINDS and t["scope"][0].startswith("not_")


def raw_scope(t, field):
    """the field name condition of the item on a field name, before `field_name_cond_not`"""
    sc = t["scope"]
    k = t["kind"]
    if k == "drop" and not sc:
        return field == "fieldB"
    if not sc or k not in SCOPED_KINDS:
        return True
    include = sc[0].endswith("include")
    if field is None:
        return not include
    return (field in sc[1]) == include


def in_scope(t, field):
    return raw_scope(t, field) != scope_negated(t)


def split_key(key):
    f, *mods = key.split("|")
    return (f or None), mods


def unesc(s):
    """plain text of a wildcard-free Sigma string literal, or None if it has wildcards"""
    out, i = [], 0
    while i < len(s):
        if s[i] == "\\" and i + 1 < len(s) and s[i + 1] in "\\*?":
            out.append(s[i + 1]); i += 2
        elif s[i] in "*?":
            return None
        else:
            out.append(s[i]); i += 1
    return "".join(out)


REPLACE_RE = {"replace": "^a", "replace_id": "ZZZZ"}
REPLACE_TO = {"replace": "X", "replace_id": "Y"}
MAPSTR = {"mapstr": {"abc": "mapped", "val": "other"}, "mapstr_n": {"abc": ["m1", "m2"], "foo": ["f1"]}, "mapstr_id": {}}


def plain_form(s):
    """the plain string a value written in Sigma string syntax stands for (an escaped backslash is one backslash; wildcards and
    escaped wildcards stay as written)"""
    out, i = [], 0
    while i < len(s):
        if s[i] == "\\" and i + 1 < len(s):
            out.append(s[i + 1] if s[i + 1] == "\\" else s[i:i + 2]); i += 2
        else:
            out.append(s[i]); i += 1
    return "".join(out)


def reescape(s):
    """back to Sigma string syntax: a backslash that does not escape a wildcard is doubled"""
    return re.sub(r"\\(?![*?])", r"\\\\", s)


def num_text(v):
    return "".join(chr(c) for c in plain(v)["num"])


def rewrite_value(t, v, mods):
    """-> list of replacement values (documented value transformations work on the plain string form)"""
    k = t["kind"]
    if k == "setvalue":
        return ["fixed"]
    if not isinstance(v, str):
        if k == "convert_str" and isinstance(v, (int, float)) and not isinstance(v, bool):
            return [num_text(v)]
        if k in REPLACE_RE and isinstance(v, (int, float)) and not isinstance(v, bool):
            return [reescape(re.sub(REPLACE_RE[k], REPLACE_TO[k], num_text(v)))]      # a number is taken as its text
        return [v]
    if k in REPLACE_RE:
        return [reescape(re.sub(REPLACE_RE[k], REPLACE_TO[k], plain_form(v)))]      # "operates on the plain string representation"
    if k in MAPSTR:
        r = MAPSTR[k].get(plain_form(v))
        if r is None:
            return [v]
        return r if isinstance(r, list) else [r]
    if k == "case_lower":
        return [v.lower()]
    if k == "case_upper":
        return [v.upper()]
    return [v]


VALUE_KINDS = ("replace", "replace_id", "mapstr", "mapstr_n", "mapstr_id", "case_lower", "case_upper", "setvalue", "convert_str")
LIST_MODS = ("all", "neq")
SOFT_MODS = ("cased", "all", "neq")


def rewrite_item(t, key, val):
    """one map entry -> ('one', key, values) item in its place | ('sub', det) sub-detection in its place | ('gone',) dropped |
    None = the documented effect is not expressible as a source-level rewrite"""
    k = t["kind"]
    field, mods = split_key(key)
    vals = val if isinstance(val, list) else [val]
    ms = "".join("|" + m for m in mods)
    is_ref = "fieldref" in mods
    # a field name condition matches a detection item through its field *or* through a field it references
    # … and the negation flag negates that result
    item_in = (raw_scope(t, field) or (is_ref and any(raw_scope(t, v) for v in vals if isinstance(v, str)))) != scope_negated(t)
    if not item_in:
        return ("one", key, vals)
    if k == "drop":
        return ("gone",)
    if k in VALUE_KINDS:
        if k == "setvalue":
            # the configured value replaces value *and* type: what the value modifiers made of the old values is void
            return ("one", (field or "") + "".join("|" + m for m in mods if m in LIST_MODS), [x for v in vals for x in rewrite_value(t, v, mods)])
        if "re" in mods or is_ref:
            return ("one", key, vals)
        if any(m not in SOFT_MODS for m in mods):
            return None      # value transformations see the value after the modifiers changed it: not expressible at source level here
        alts = [rewrite_value(t, v, mods) for v in vals]
        if "all" in mods and any(len(a) > 1 for a in alts):
            # the alternatives of one value stay alternatives also when the values are AND-linked
            k2 = (field or "") + "".join("|" + m for m in mods if m != "all")
            return ("sub", {"all": [{"map": [[cps(k2), pv(a)]]} for a in alts]})
        return ("one", key, [x for a in alts for x in a])

    def rn(f):
        if f is None:
            return [None]
        if k == "map11":
            return [{"fieldA": "mappedA", "win.user": "user"}.get(f, f)]
        if k == "map1n":
            return ["m1", "m2"] if f == "fieldA" else [f]
        if k == "prefix":
            return ["p." + f]
        if k == "suffix":
            return [f + ".s"]
        if k == "prefixmap":
            return ["w_" + f[4:]] if f.startswith("win.") else [f]
        if k == "prefixmap_n":
            return ["w_" + f[4:], "v." + f[4:]] if f.startswith("win.") else [f]
        if k == "nest":
            return [{"fieldA": "mappedA"}.get(f, f) + ".s"]
        return [f]
    if k in RENAME_KINDS:
        if is_ref:
            newvals = []
            for v in vals:
                newvals += (rn(v) if in_scope(t, v) else [v]) if isinstance(v, str) else [v]
            vals = newvals
        targets = rn(field) if in_scope(t, field) else [field]
        if len(targets) == 1:
            return ("one", (targets[0] or "") + ms, vals)
        return ("sub", {"list": [{"map": [[cps((x or "") + ms), pv(vals)]]} for x in targets]})
    return ("one", key, vals)


def pv(vals):
    return [plain(v) for v in vals]


def rewrite_fields(t, fields):
    if t["kind"] == "add_field":
        return list(fields) + ["extra", "fieldA"]
    if t["kind"] == "remove_field":
        out = list(fields)
        for f in ["fieldA", "nosuchfield", "fieldA"]:      # each listed name removes its first occurrence, if any
            if f in out:
                out.remove(f)
        return out
    if t["kind"] == "set_field":
        return ["only.this"]
    if t["kind"] not in RENAME_KINDS:
        return list(fields)
    out = []
    for f in fields:
        r = rewrite_item(t, f, [])
        if r[0] == "one":
            out.append(r[1])
        elif r[0] == "sub" and "list" in r[1]:
            out += ["".join(chr(c) for c in x["map"][0][0]) for x in r[1]["list"]]
        else:
            out.append(f)
    return out


def rewrite_det(t, d):
    """-> Det JSON (shape as `Rewrite.assemble`: a map whose items stay items stays a map, otherwise the AND of its pieces in
    order), "EMPTY" if everything was dropped, or None if the documented rewrite is not expressible here"""
    k = t["kind"]
    if isinstance(d, dict):
        pieces = []
        for key, val in d.items():
            r = rewrite_item(t, key, val)
            if r is None:
                return None
            if r[0] != "gone":
                pieces.append(r)
        if not pieces:
            return "EMPTY"
        if all(x[0] == "one" for x in pieces):
            return {"map": [[cps(x[1]), pv(x[2])] for x in pieces]}
        return {"all": [({"map": [[cps(x[1]), pv(x[2])]]} if x[0] == "one" else x[1]) for x in pieces]}
    if isinstance(d, list) and all(not isinstance(x, (dict, list)) for x in d) or not isinstance(d, (dict, list)):
        vals = d if isinstance(d, list) else [d]
        if k == "drop" and in_scope(t, None):
            return "EMPTY"
        if k == "kw2field":
            # keyword -> field with substring semantics
            return {"map": [[cps("msg|contains"), pv(vals)]]} if all(isinstance(v, str) for v in vals) else None
        if k == "kw2field_n":
            # … to several fields: the OR of one substring item per field
            return {"list": [{"map": [[cps(g + "|contains"), pv(vals)]]} for g in ("msg", "raw")]} if all(isinstance(v, str) for v in vals) else None
        if k in VALUE_KINDS and in_scope(t, None):
            new = []
            for v in vals:
                new += rewrite_value(t, v, [])
            return {"values": pv(new)}
        return {"values": pv(vals)}
    out = []
    for x in d:
        r = rewrite_det(t, x)
        if r is None:
            return None
        if r != "EMPTY":
            out.append(r)
    return {"list": out} if out else "EMPTY"


def rewrite_rule(case):
    """-> {"dets": [(name, Det JSON)], "cond": text, "fields": [...]} or {"err": "notExpressible" | "emptied"}"""
    t = case["t"]
    k = t["kind"]
    dets = []
    cond = case["rule"]["cond"]
    if k in ("ph_value", "ph_wild", "ph_value_nest"):      # read by the rule semantics with the item as context: the document stays
        if k in ("ph_value", "ph_value_nest") and "|re" in repr(case["rule"]["dets"]):
            return {"dets": [(nm, det_json(subst_regex(d))) for nm, d in case["rule"]["dets"].items()], "cond": cond, "fields": list(case["rule"].get("fields", []))}
        return {"dets": [(nm, det_json(d)) for nm, d in case["rule"]["dets"].items()], "cond": cond, "fields": list(case["rule"].get("fields", []))}
    for nm, d in case["rule"]["dets"].items():
        r = rewrite_det(t, d)
        if r is None:
            return {"err": "notExpressible"}
        if r == "EMPTY":
            return {"err": "emptied"}          # a detection emptied by dropping: its operand vanishes (C02 'modelled, not judged')
        dets.append((nm, r))
    if k == "addcond":
        dets.append(("_added", {"map": [[cps("idx"), pv(["main"])], [cps("src"), pv(["a", "b"])]]}))
        cond = f"_added and ({cond})"
    elif k == "addcond_neg":
        dets.append(("_added", {"map": [[cps("idx"), pv(["excluded"])]]}))
        cond = f"not _added and ({cond})"
    elif k == "addcond_tpl":
        dets.append(("_added", {"map": [[cps("idx"), pv(["cat-prod"])]]}))
        cond = f"_added and ({cond})"
    return {"dets": dets, "cond": cond, "fields": rewrite_fields(t, case["rule"].get("fields", []))}


# ------------------------------------------------------------------ the original document and the transformation, for the Lean rewrite
def det_json(d):
    if isinstance(d, dict):
        return {"map": [[cps(k), pv(v if isinstance(v, list) else [v])] for k, v in d.items()]}
    if isinstance(d, list) and any(isinstance(x, (dict, list)) for x in d):
        return {"list": [det_json(x) for x in d]}
    return {"values": pv(d if isinstance(d, list) else [d])}


def scope_desc(y):
    """the condition group of the item's field name conditions, as `Driver.rwGroupOfJson` reads it"""
    fc = y.get("field_name_conditions")
    if not fc:
        return None
    return {"conds": [{"mode": "include" if c["type"] == "include_fields" else "exclude", "fields": [cps(f) for f in c["fields"]]} for c in fc],
            "anyOf": y.get("field_name_cond_op") == "or", "neg": bool(y.get("field_name_cond_not"))}


def aslist(v):
    return v if isinstance(v, list) else [v]


def yaml_strings(y, acc):
    if isinstance(y, dict):
        for v in y.values():
            yaml_strings(v, acc)
    elif isinstance(y, list):
        for v in y:
            yaml_strings(v, acc)
    elif isinstance(y, str):
        acc.add(y)
    return acc


def text_universe(y, rule):
    """every string (in Sigma string syntax) a value of the rule can be when an item of the (nested) pipeline `y` sees it: the
    rule's own texts and the pipeline's string constants, closed under case mapping and the pipeline's substitutions"""
    raw = set()
    import string
    ls = rule["logsource"]
    for t in all_raw_texts(rule["dets"], set()) | yaml_strings(y, set()):
        raw.add(t)
        if "$" in t:      # templated conditions
            raw.add(string.Template(t).safe_substitute(category=ls.get("category"), product=ls.get("product"), service=ls.get("service")))
    subs = []

    def collect(x):
        if x["type"] == "replace_string":
            subs.append((re.compile(x["regex"]), x["replacement"]))
        for z in x.get("items", []):
            collect(z)
    collect(y)
    for _ in range(3):
        new = set()
        for t in raw:
            new |= {t.upper(), t.lower()}
            for rx, rep in subs:
                new.add(reescape(rx.sub(rep, plain_form(t))))
        if new <= raw:
            break
        raw |= new
    return raw


def all_raw_texts(d, acc):
    if isinstance(d, dict):
        for v in d.values():
            all_raw_texts(v, acc)
    elif isinstance(d, list):
        for v in d:
            all_raw_texts(v, acc)
    elif isinstance(d, str):
        acc.add(d)
    elif isinstance(d, (int, float)) and not isinstance(d, bool):
        acc.add(num_text(d))
    return acc


def tr_desc(y, rule, names=None, universe=None):
    """description of one pipeline item (as written in pipeline YAML) for `Driver.trOfJson`"""
    ty, sc = y["type"], scope_desc(y)
    names = names if names is not None else []      # the added detections get distinct names (the code draws random ones)
    universe = universe if universe is not None else text_universe(y, rule)
    if ty == "field_name_mapping":
        m = y["mapping"]
        r = {"t": "rename", "fn": {"k": "table", "tbl": [[cps(a), [cps(x) for x in aslist(b)]] for a, b in m.items() if a is not None]}, "scope": sc}
        if None in m:
            kw = {"t": "kw2field", "g": cps(m[None])} if isinstance(m[None], str) else {"t": "kw2fields", "gs": [cps(g) for g in m[None]]}
            return kw if len(m) == 1 else {"t": "nest", "items": [r, kw]}
        return r
    if ty == "field_name_prefix":
        return {"t": "rename", "fn": {"k": "prefix", "s": cps(y["prefix"])}, "scope": sc}
    if ty == "field_name_suffix":
        return {"t": "rename", "fn": {"k": "suffix", "s": cps(y["suffix"])}, "scope": sc}
    if ty == "field_name_prefix_mapping":
        return {"t": "rename", "fn": {"k": "prefixMap", "tbl": [[cps(a), [cps(x) for x in aslist(b)]] for a, b in y["mapping"].items()]}, "scope": sc}
    if ty == "drop_detection_item":
        return {"t": "drop", "scope": sc}
    if ty == "add_condition":
        ls = rule["logsource"]
        names.append("_added" if not names else f"_added_{len(names)}")
        return {"t": "addCond", "name": cps(names[-1]), "items": [[cps(a), pv(aslist(b))] for a, b in y["conditions"].items()],
                "negated": bool(y.get("negated")), "template": bool(y.get("template")),
                "vars": [[cps(n), cps(str(ls.get(n)))] for n in ("category", "product", "service")]}
    if ty == "replace_string":
        rx = re.compile(y["regex"])
        return {"t": "value", "vt": {"k": "replace", "tbl": [[cps(x), cps(rx.sub(y["replacement"], x))] for x in sorted({plain_form(t) for t in universe})]}, "scope": sc}
    if ty == "map_string":
        return {"t": "value", "vt": {"k": "map", "tbl": [[cps(a), [cps(x) for x in aslist(b)]] for a, b in y["mapping"].items()]}, "scope": sc}
    if ty == "case":
        return {"t": "value", "vt": {"k": y["method"]}, "scope": sc}
    if ty == "set_value":
        return {"t": "value", "vt": {"k": "set", "v": plain(y["value"])}, "scope": sc}
    if ty == "convert_type" and y["target_type"] == "str":
        return {"t": "value", "vt": {"k": "convertStr"}, "scope": sc}
    if ty == "nest":
        return {"t": "nest", "items": [tr_desc(x, rule, names, universe) for x in y["items"]]}
    if ty == "add_field":
        return {"t": "addFields", "fields": [cps(f) for f in aslist(y["field"])]}
    if ty == "remove_field":
        return {"t": "removeFields", "fields": [cps(f) for f in aslist(y["field"])]}
    if ty == "set_field":
        return {"t": "setFields", "fields": [cps(f) for f in y["fields"]]}
    if ty == "hashes_fields":
        return {"t": "hashes", "algos": [cps(a) for a in y["valid_hash_algos"]], "pfx": cps(y.get("field_prefix", "")), "drop": bool(y.get("drop_algo_prefix", False)),
                "fields": [cps(f) for f in y.get("field_to_parse", ["Hashes", "Hash"])], "byLength": [[n, cps(a)] for n, a in BY_LENGTH], "scope": sc}
    if ty in ("wildcard_placeholders", "value_placeholders"):
        return {"t": "nest", "items": []}      # placeholders are part of the rule semantics (C17); the generated rules have none
    raise ValueError(f"no Lean rewrite for {ty}")


def subst_regex(d):
    """value_placeholders on `field|re|…|expand` items of a map, by hand"""
    import itertools
    out = {}
    for key, val in d.items():
        mods = key.split("|")
        if "re" in mods and "expand" in mods:
            vals = []
            for v in (val if isinstance(val, list) else [val]):
                names = re.findall(r"%(\w+)%", v)
                for combo in itertools.product(*[PH_VARS[n] for n in names]):
                    x = v
                    for n, c in zip(names, combo):
                        x = x.replace(f"%{n}%", c, 1)
                    vals.append(x)
            out["|".join(m for m in mods if m != "expand")] = vals
        else:
            out[key] = val
    return out


def rule_dict(case):
    r = {"title": "t", "logsource": case["rule"]["logsource"],
         "detection": {**copy.deepcopy(case["rule"]["dets"]), "condition": case["rule"]["cond"]}}
    if "fields" in case["rule"]:
        r["fields"] = list(case["rule"]["fields"])
    return r


def run_impl(case):
    from sigma.collection import SigmaCollection
    from sigma.processing.pipeline import ProcessingPipeline
    try:
        pl = ProcessingPipeline.from_dict({"name": "p", "priority": 1, "vars": PH_VARS, "transformations": [t_yaml(case["t"])]})
        coll = SigmaCollection.from_dicts([rule_dict(case)])
        backend = qsyntax.make_backend(CFG)(pl)
        if case.get("prior"):     # the same backend / pipeline object converted another rule (other log source, other values) before
            try:
                backend.convert(SigmaCollection.from_dicts([copy.deepcopy(PRIOR_RULE)]))
            except Exception:
                pass
        qs = backend.convert(coll)
        fields = [str(f) for f in coll.rules[0].fields]      # the pipeline ran on the rule object of the collection
        ref = None
        if case["t"]["kind"] in IDENTITY_KINDS:
            coll2 = SigmaCollection.from_dicts([rule_dict(case)])
            ref = qsyntax.make_backend(CFG)().convert(coll2)
        return {"outcome": "ok", "queries": qs, "ref": ref, "fields": fields}
    except NotImplementedError as e:
        return {"outcome": "unsupported", "msg": str(e)[:100]}
    except Exception as e:
        return {"outcome": outcome_of_exception(e), "msg": str(e)[:200]}


def _has_type(y, ty):
    return y.get("type") == ty or any(_has_type(x, ty) for x in y.get("items", []))


def _no_valid_hash(impl):
    """the documented failure of hashes_fields ("Raises: if no valid hash algorithms were found in the detection item")"""
    return impl["outcome"] == "sigma:SigmaValueError" and "No valid hash algorithm" in (impl.get("msg") or "")


def make_request(case, impl, gen):
    if impl["outcome"] != "ok" and not (_no_valid_hash(impl) and _has_type(t_yaml(case["t"]), "hashes_fields")):
        return {"op": "ping"}
    rule = case["rule"]
    qs = []
    for q in impl.get("queries", []):
        try:
            qs.append(qsyntax.tokenize(q))
        except qsyntax.Tokenize as e:
            qs.append({"tokErr": str(e)})
    r = {"op": "rewrite.case", "dets": [{"name": cps(n), "det": det_json(d)} for n, d in rule["dets"].items()],
         "conds": [cps(rule["cond"])], "fields": [cps(f) for f in rule.get("fields", [])],
         "tr": tr_desc(t_yaml(case["t"]), rule), "cfg": {"prec": CFG["prec"], "nativeCidr": True}, "wordChars": [], "queries": qs}
    if case["t"]["kind"] in ("ph_value", "ph_value_nest") and "|re" in repr(rule["dets"]):
        # regular expressions: the documented rewrite is done by hand here (every placeholder replaced by each value of its
        # variable, all combinations, as alternatives; modifiers - the flags - stay): the Lean semantics reads the result
        r["dets"] = [{"name": cps(n), "det": det_json(subst_regex(d))} for n, d in rule["dets"].items()]
        return r
    if case["t"]["kind"] in ("ph_value", "ph_wild", "ph_value_nest"):
        # placeholder expansion is read by the Lean rule semantics (Spec/Rule, Spec/Placeholder): the item and the variables are its context
        r["phItems"] = [{"kind": "wildcard" if case["t"]["kind"] == "ph_wild" else "value", "include": [cps("p")], "exclude": None,
                         "expr": cps(qsyntax.QX_EXPR), "mapping": []}]
        r["vars"] = [[cps(k), [{"text": cps(str(x))} for x in v]] for k, v in PH_VARS.items()]
    return r


def _d3(case):
    """string value with a literal backslash directly before a wildcard / escaped wildcard / backslash, touched by a string-form transformation"""
    return case["t"]["kind"] in ("replace", "replace_id", "case_lower", "case_upper") and re.search(r"\\\\\\\\[*?\\\\]|\\\\\\\\$", repr(case["rule"]["dets"])) is not None


def _has_number(d):
    if isinstance(d, dict):
        return any(_has_number(v) for v in d.values())
    if isinstance(d, list):
        return any(_has_number(v) for v in d)
    return isinstance(d, (int, float)) and not isinstance(d, bool)


def _doc_drift(case, reply):
    """the document of the Python rewriters against the document of the Lean rewrite -> description of the difference or None"""
    py = rewrite_rule(case)
    if "rwErr" in reply:
        return None if py.get("err") == reply["rwErr"] else f"Lean rewrite: {reply['rwErr']}; Python rewriters: {py.get('err') or 'a document'}"
    if "err" in py:
        return f"Python rewriters: {py['err']}; Lean rewrite: a document"
    lean = reply["doc"]
    mine = {"dets": [{"name": cps(n), "det": d} for n, d in py["dets"]], "conds": [cps(py["cond"])], "fields": [cps(f) for f in py["fields"]]}
    for part in ("dets", "conds", "fields"):
        if json.dumps(lean[part], sort_keys=True) != json.dumps(mine[part], sort_keys=True):
            return f"{part} differ: Lean {show_doc_part(part, lean[part])} / Python {show_doc_part(part, mine[part])}"
    return None


def show_doc_part(part, x):
    from .common import uncps

    def sv(v):
        if not isinstance(v, dict):
            return v
        if "str" in v:
            return uncps(v["str"])
        t = uncps(v["num"])
        return int(t) if t.lstrip("-").isdigit() else float(t)

    def sd(d):
        if "map" in d:
            return {uncps(k): [sv(v) for v in vs] for k, vs in d["map"]}
        if "values" in d:
            return [sv(v) for v in d["values"]]
        return {("OR" if "list" in d else "AND"): [sd(y) for y in d.get("list", d.get("all"))]}
    if part == "dets":
        return {uncps(d["name"]): sd(d["det"]) for d in x}
    return [uncps(c) for c in x]


def _sets_null(y):
    return (y.get("type") == "set_value" and "value" in y and y["value"] is None) or any(_sets_null(x) for x in y.get("items", []))


def _has_keyword(d):
    if isinstance(d, dict):
        return False
    if isinstance(d, list):
        return any(_has_keyword(x) if isinstance(x, (dict, list)) else True for x in d)
    return True


def _null_keyword(case, impl):
    """set_value with a null value on a rule with a keyword item: TypeError from the backend (former defect D12k, fixed in /repo 8ae24c8; kept for the regression tag only)"""
    return (impl["outcome"] == "other:TypeError" and "SigmaNull" in (impl.get("msg") or "") and _sets_null(t_yaml(case["t"]))
            and any(_has_keyword(d) for d in case["rule"]["dets"].values()))


def judge(case, impl, reply):
    io = impl["outcome"]
    k = case["t"]["kind"]
    key = (case["rule"], case["t"], case.get("prior"))
    tags = [f"kind:{k}", f"impl:{io.split(':')[0]}", f"scope:{case['t']['scope'][0] if case['t']['scope'] else 'none'}"]
    fid = "D3" if _d3(case) else ("D35" if (k in ("replace", "replace_id") and _has_number(case["rule"]["dets"])) else None)
    if io.startswith("other:"):
        return Verdict("violation", f"{io}: {impl.get('msg')} for transformation {t_yaml(case['t'])} on {case['rule']['dets']}", True, key, finding=fid, tags=tuple(tags))
    if k == "rand" and _has_type(case["t"]["yaml"], "hashes_fields"):
        tags.append("stream:hash")
        if _no_valid_hash(impl):
            if reply.get("rwErr") == "noValidHash":
                return Verdict("ok", "", True, key, tags=tuple(tags + ["hash:no-valid-entry"]))
            if "doc" in reply:
                return Verdict("violation", (f"transformation {t_yaml(case['t'])} on {case['rule']['dets']}: the pipeline fails ({impl.get('msg')}) although every hash list it applies to has an "
                                             f"entry of a valid algorithm; the documented rewrite is {show_doc_part('dets', reply['doc']['dets'])}"), True, key, tags=tuple(tags))
        elif io == "ok" and reply.get("rwErr") == "noValidHash":
            return Verdict("violation", (f"transformation {t_yaml(case['t'])} on {case['rule']['dets']}: a hash list without any entry of a valid algorithm is documented to fail, "
                                         f"the pipeline emitted {impl['queries']}"), True, key, tags=tuple(tags))
    if io != "ok":
        return Verdict("ok", "", False, key, tags=tuple(tags + ["unjudged:" + io.split(":")[0]]))
    if impl["ref"] is not None and impl["queries"] != impl["ref"]:
        return Verdict("violation", f"identity instance {t_yaml(case['t'])} changed the query of {case['rule']['dets']} / {case['rule']['cond']}: {impl['queries']} instead of {impl['ref']}",
                       True, key, finding=fid, tags=tuple(tags))
    drift = _doc_drift(case, reply) if k != "rand" else None      # random parameters: no Python rewriter, the Lean rewrite alone is the oracle
    if k == "rand":
        tags.append("rand:" + case["t"]["yaml"]["type"])
    if drift:
        return Verdict("drift", f"transformation {t_yaml(case['t'])} on {case['rule']['dets']}: {drift}", True, key, tags=tuple(tags + ["drift"]))
    if "rwErr" in reply:
        return Verdict("ok", "", False, key, tags=tuple(tags + ["unjudged:" + ("rewrite-not-expressible" if reply["rwErr"] == "notExpressible" else "emptied-detection")]))
    lean_fields = ["".join(chr(c) for c in f) for f in reply["doc"]["fields"]]
    if lean_fields != impl["fields"]:
        return Verdict("violation", (f"transformation {t_yaml(case['t'])} on a rule with fields list {case['rule'].get('fields')}: the list is {impl['fields']} after the "
                                     f"pipeline, the documented rewrite gives {lean_fields}"), True, key, finding=fid, tags=tuple(tags))
    if len(impl["queries"]) != 1:
        return Verdict("violation", f"transformation {t_yaml(case['t'])} on {case['rule']['dets']} / {case['rule']['cond']!r}: {len(impl['queries'])} queries emitted, the documented rewrite "
                                    f"is the rule {show_doc_part('dets', reply['doc']['dets'])}", True, key, finding=fid, tags=tuple(tags))
    r = reply["items"][0]
    if "tokErr" in r:
        return Verdict("violation", f"query not well-formed ({r['tokErr']}): {impl['queries']}", True, key, finding=fid, tags=tuple(tags))
    if "specErr" in r:
        if r["specErr"] == "condition":
            return Verdict("ok", "", False, key, tags=tuple(tags + ["unjudged:empty-selector"]))
        return Verdict("drift", f"rewritten document not readable by the specification: {r}", True, key, tags=tuple(tags))
    if r.get("tooMany"):
        return Verdict("ok", "", False, key, tags=tuple(tags + ["unjudged:too-many-atoms"]))
    if r.get("readErr") or not r.get("equal"):
        from .common import uncps
        return Verdict("violation", (f"transformation {t_yaml(case['t'])} on {case['rule']['dets']} / {case['rule']['cond']!r}: emitted {impl['queries'][0]!r} is not equivalent to the "
                                     f"documented rewrite {show_doc_part('dets', reply['doc']['dets'])} / {uncps(reply['doc']['conds'][0])!r}: differs when exactly "
                                     f"{c01.show_atoms(r.get('trueAtoms'))} hold; only in query "
                                     f"{c01.show_atoms(r.get('extraAtoms'))}; only in rewrite {c01.show_atoms(r.get('missingAtoms'))}"), True, key, finding=fid, tags=tuple(tags))
    return Verdict("ok", "", True, key, tags=tuple(tags))
