"""C07 — malformed documents raise Sigma errors only; collecting mode never raises.

Valid rule / correlation / filter documents are mutated at every path: every value replaced by every YAML type
(null, bool, int, float, string, empty string, list, map, nested), every key deleted, out-of-range enum / date /
UUID / timespan / operator values; plus arbitrary nested YAML.  Each document is loaded strictly and with error
collection.  Deciding: strict loading succeeds or raises an exception from the Sigma hierarchy; collecting
loading never raises; its error list is non-empty exactly when strict loading raises, and its first error is
the one strict loading raises (same class and message).

Correspondence (K): every document is also sent to the Lean loader model (`load.case`,
lean/SigmaVerif/Model/Load.lean); on documents the model claims (`inDomain`) the strict outcome class,
the collecting outcome and the ordered list of collected error classes must coincide with the
implementation's — a disagreement is reported as model drift (diagnostic, not a violation).

Round 5: (a) documents with TWO independent errors (all pairs of a table of single-error mutations per kind: enum / date / UUID /
tag / related / licence / timespan / alias / type values out of range), as documents, one-document collections and one-file rule
sets: "the first collected error equals the one strict loading raises" is a statement about the ORDER of the collected list,
which only documents with several errors (of every pair of error kinds, with and without a source location) can show.
(b) rule sets of several files (kind `ruleset`, field `layout`): 2..4 files drawn from valid / broken-in-one-way / broken-twice /
not-a-rule / sampled collection documents, stored under seeded file names (sub-directories, upper/lower case, digits) and given to
`load_ruleset` as an explicit file list in the case's order (independent of the alphabetical order of the names), as the
directory, or as sub-directory + remaining files; all orders of 2 and 3 out of four broken files exhaustively.  Strict loading
raises the first error of the first broken input, so that error must head the collected list whatever the files are called.
The compared identity of an error now includes its source location (`SigmaError.__eq__`: class, arguments, source).

Cross-field stream (`CROSS`, former finding D8i - repaired in sigma/correlations.py: `__post_init__(collect_errors)` appends the error
of `_validate()` in collecting mode): correlation rules whose only defect is an inconsistency BETWEEN fields (a value_* type whose
condition names no field, a non-temporal type without condition, an extended condition that does not mention a listed rule / mentions
an unlisted one, an extended condition on a non-temporal type), alone and combined with every single-error mutation of `ERR1["corr"]`,
as document, one-document collection (with and without reference resolution) and one-file rule set.  They are judged like every other
document: collecting mode must return, and the first collected error must be the one strict loading raises."""
from __future__ import annotations
import copy, os, random, sys
from .common import WORK, Verdict, outcome_of_exception, cps

ID = "C07"
GEN = ["LoadGuards"]
RULE = ("stream 1: three valid base documents per kind (rule, correlation, filter) x every path x 14 replacement values of every YAML "
        "type + key deletion + out-of-range values for enums/dates/UUIDs/timespans/operators; collection level: action keys, "
        "non-map documents; seeded random nested YAML.  stream 2 (also stresses the Lean model): five correlation bases incl. extended "
        "conditions x every path x 15 further values (non-finite/zero floats, False, big int, maps with non-string keys) + per-key "
        "special values (UUID spellings, calendar edge dates, int()/timespan spellings, condition strings and maps, log sources, "
        "detection sections) + key renames (non-string keys, modifier chains) + seeded multi-point mutations; fixed sub-stream of the "
        "places where exceptions used to escape (N1-N9); collections: global/repeat/reset sequences, filters next to rules, every "
        "sampled document as one-document collection, seeded document pairs; collections loaded with reference resolution (kind collection_refs): "
        "references present / missing / partly missing by name and by id, nested correlations, extended conditions, erroneous referenced rules, "
        "seeded mixes; distinct = distinct (kind, document); "
        "non-trivial = a mutated (not the base) document"
        "; rule sets loaded from files (load_ruleset) where one file holds the documents of a collection case"
        "; round 5: documents with two independent errors (all pairs of a single-error mutation table per kind) as document / collection / one-file rule set; "
        "rule sets of 2..4 files {valid, broken once, broken twice, not a rule, sampled collection} under seeded file names and sub-directories, given as explicit "
        "file list in any order / directory / sub-directory + files (all orders of 2 and 3 of four broken files exhaustively); the error identity compared "
        "includes the source location"
        "; cross-field stream: correlation rules whose only defect is an inconsistency between fields (value_* type without field, non-temporal type "
        "without condition, extended condition / rules list mismatches, extended condition on a non-temporal type) alone and with one further "
        "single-error mutation, as document / collection / collection with reference resolution / one-file rule set")
ASSUMPTIONS = [
    "documents are YAML-representable Python values (no custom tags); loading goes through from_dict / SigmaCollection.from_dicts",
    "'the same error' = same exception class and same message text",
    "the Lean model covers the JSON-like fragment of YAML (null, bool, int, float, str, list, map with scalar keys; no dates, binaries, sets)",
    "model comparison only on documents the model claims (inDomain): ASCII strings, str/int/null keys, modifier chains that are a single "
    "contains/startswith/endswith/re (safe regular expressions), UUID strings int(.,16) cannot rescue, shallow extended conditions",
]
REPL = [None, True, 0, -1, 3.5, "", "str", "2024-13-45", [], ["x"], {}, {"k": "v"}, [["n"]], {"a": {"b": [1, {"c": None}]}}]
SPECIAL = {"id": ["not-a-uuid", "1234", 5], "status": ["bogus"], "level": ["bogus"], "date": ["2024-02-30", "24-01-01", "2024/1/1"],
           "timespan": ["5x", "m5", "", "0", "-1m", 5, "1.5h"], "type": ["bogus", 5], "gte": ["x", None, 1.5], "rules": ["any", "ANY", 5]}

BASES = {
    "rule": [
        {"title": "T", "id": "929a690e-bef0-4204-a928-ef5e620d6fcc", "name": "nm", "status": "test", "level": "high", "description": "d", "author": "a",
         "date": "2024-01-31", "modified": "2024/02/01", "tags": ["attack.t1059"], "references": ["https://x"], "falsepositives": ["fp"], "fields": ["f"],
         "related": [{"id": "08fbc97d-0a2f-491c-ae21-8ffcfd3174e9", "type": "derived"}], "taxonomy": "sigma", "license": "MIT", "scope": ["s"],
         "logsource": {"category": "c", "product": "p", "service": "s", "definition": "d"},
         "detection": {"sel": {"f|contains": ["a", "b"], "g": 1}, "flt": [{"h": "x"}, {"i|re": "y+"}], "kw": ["k1", "k2"], "condition": ["sel and not flt", "1 of them"]}},
    ],
    "corr": [
        {"title": "C", "id": "0e95725d-7320-415d-80f7-004da920fc11", "name": "cn", "status": "test", "level": "high",
         "correlation": {"type": "event_count", "rules": ["r1", "r2"], "group-by": ["u"], "timespan": "5m", "condition": {"gte": 10}, "generate": True,
                         "aliases": {"u": {"r1": "user", "r2": "usr"}}}},
        {"title": "C2", "correlation": {"type": "value_count", "rules": ["r1"], "timespan": "1h", "condition": {"lt": 3, "field": "f"}}},
        {"title": "C3", "correlation": {"type": "temporal", "timespan": "1d", "group-by": ["u"], "condition": "r1 and not r2"}},
    ],
    "filter": [
        {"title": "F", "id": "11111111-2222-3333-4444-555555555555", "logsource": {"category": "c"},
         "filter": {"rules": ["r1"], "flt": {"f": "a"}, "flt2": {"g|contains": ["x"]}, "condition": "not flt"}},
    ],
}


# bases of the second (model stress) stream: the bases above plus an extended condition with a rules list
BASES2 = {k: list(v) for k, v in BASES.items()}
BASES2["corr"] = BASES2["corr"] + [
    {"title": "C4", "correlation": {"type": "temporal_ordered", "rules": ["r1", "r2"], "timespan": "2w", "condition": "r1 and (not r2 or r1)", "generate": False}},
    {"title": "C5", "correlation": {"type": "value_percentile", "rules": "r1", "group-by": "u", "timespan": "1M", "condition": {"gt": 1, "field": "f", "percentile": 95}}},
]


def paths(d, pre=()):
    yield pre
    if isinstance(d, dict):
        for k, v in d.items():
            yield from paths(v, pre + (k,))
    elif isinstance(d, list):
        for i, v in enumerate(d):
            yield from paths(v, pre + (i,))


def set_path(d, path, value, delete=False):
    d = copy.deepcopy(d)
    if not path:
        return value
    cur = d
    for p in path[:-1]:
        cur = cur[p]
    if delete:
        if isinstance(cur, dict):
            del cur[path[-1]]
        else:
            cur.pop(path[-1])
    else:
        cur[path[-1]] = value
    return d


def rand_yaml(rnd, depth=3):
    r = rnd.random()
    if depth == 0 or r < 0.35:
        return rnd.choice([None, True, 1, 2.5, "s", "", "title", "detection"])
    if r < 0.65:
        return [rand_yaml(rnd, depth - 1) for _ in range(rnd.randint(0, 3))]
    keys = ["title", "detection", "condition", "logsource", "correlation", "filter", "rules", "type", "timespan", "id", "x", "action", 1, None]
    return {rnd.choice(keys): rand_yaml(rnd, depth - 1) for _ in range(rnd.randint(0, 4))}


INF, NAN = float("inf"), float("nan")
# second replacement set (model stress): non-finite / zero floats, False, a 100-bit integer, odd strings
REPL2 = [INF, NAN, 0.0, -0.0, False, 2 ** 100, " ", "a.b", "A|B", [None], [INF], [{}], {"": ""}, {1: 2}, {None: None}]
KEYS2 = [1, None, True, 2.5, "", "x|contains", "f|bogus", "f|all", "|re", "f|re|i", "f|", "condition", "rules"]
UUID_ = "929a690e-bef0-4204-a928-ef5e620d6fcc"
SPECIAL2 = {
    "id": ["{" + UUID_ + "}", "urn:uuid:" + UUID_, UUID_.upper(), UUID_.replace("-", ""), UUID_ + "0", UUID_[:-1], "0x" + UUID_.replace("-", "")[2:],
           UUID_.replace("-", "")[:-2] + "_1", " " + UUID_.replace("-", "")[1:], "g" + UUID_[1:], "-" * 40, "\u0661" + UUID_[1:]],
    "status": ["TEST", "Test", "tEsT ", "te\u017ft", ""], "level": ["HIGH", "High", " high", "h\u0131gh", "critical", "informational"],
    "date": ["2024-02-29", "2023-02-29", "1900-02-29", "2000-02-29", "1000-01-01", "0999-01-01", "3999-12-31", "4000-01-01", "2024-00-10", "2024-01-00",
             "2024-04-31", "2024/2/9", "2024/02/9", "2024/13/1", "2024/1/32", "2024/1/1/", "2024//1", "2024/1", "2024-1-01", " 2024-01-01", "2024-01-01\n",
             "\u0662024-01-01", "2024-01-31T00:00:00"],
    "modified": ["2024/12/31", "2024/0/1", "2024/1/0", "2024/19/1", "2024/1/39", "2024/20/1", "2024/1/40", "2024/001/1"],
    "timespan": [" 5m", "5m ", "+5m", "--5m", "1_0m", "1__0m", "_1m", "1_m", "5M", "5y", "5w", "5S", "\u0665m", "5", "m", "0m", "00012d", ["5", "m"], {"5": "m"}, INF, True,
                 "9" * 5000 + "s", "5\u00b5"],
    "type": ["EVENT_COUNT", "Temporal", "temporal_ordered", "value_sum", "value_avg", "value_percentile", "value_median", "temporal ", "temporal_extended", ""],
    "gte": ["10", " 1_0 ", "+3", "1e3", True, [1], {}, INF, -INF, NAN, 2.9, "\u0663", ""],
    "lt": ["3", None, INF],
    "rules": ["r1", [], [1], [None], [["n"]], ["r1", 2], {"r1": 1}, "", ["r1", "r1"], ["r1", "r2", "r3"], ["not"], True],
    "condition": ["r1", "r2", "not", "and", "r1 and", "(r1 or r2) and not r3", "r1 and and", "1r", "r1 & r2", "((r1))", "not not r1", "r1 or", "r1 $", "", " ", "r1\tand\nr2",
                  "r1 AND r2", "r1 and(r2)", "not(r1)", "(r1", "r1)", "()", "r_1 or _r2", "r1 or r2 or r3 and r1", "r1 r2", "r\u00e91", "r1\x0band r2", "(" * 30 + "r1" + ")" * 30,
                  {"gte": 1, "lte": 2}, {"gte": 1, "x": 2}, {"gte": 1, 1: 2}, {"gte": 1, None: 2}, {"x": 1}, {"gte": 1, "percentile": "x"}, {"gte": 1, "percentile": INF},
                  {"gte": 1, "percentile": 50, "field": None}, {"eq": 1, "field": ["a", "b"]}, {"neq": "7", "field": ""}, {"GTE": 1}, {"field": "f"}, {"percentile": 5},
                  ["a and b"], [], [[]], 5, None],
    "group-by": ["u", [1, None, ["x"]], {"u": 1}, 5, ""],
    "aliases": [{"u": 5}, {"u": {}}, {1: {2: 3}}, {"u": {"r1": ["x"]}}, {"u": None}, [], {}],
    "generate": [False, 0, 1, "true", None],
    "tags": [["a.b", "ab", 5, ".", "a.", ".a", "a.b.c", "", None, ["x.y"]], ["nodot"], [[]], "a.b"],
    "related": [[{"id": UUID_}], [{"type": "derived"}], [{"id": UUID_, "type": "bogus"}], [{"id": UUID_, "type": "OBSOLETE"}], [{"id": 5, "type": "derived"}],
                [{"id": UUID_, "type": 5}], [{"id": "x", "type": "derived"}], [5], [None], [[]], [{"id": UUID_, "type": "similar"}, 5], [{"id": UUID_.replace("-", "")[:-2] + "_1", "type": "merged"}],
                [{"id": None, "type": None}], [{1: 2}], [{"id": UUID_, "type": "renamed", "x": 1}, {"id": UUID_, "type": "correlation"}]],
    "title": ["x" * 256, "x" * 257, "\u00e9" * 256, ""],
    "name": ["", " ", "n"], "taxonomy": ["", "x", None],
    "logsource": [{"category": 0}, {"category": ""}, {"category": [], "product": "p"}, {"category": None, "product": None, "service": None}, {"definition": "d"},
                  {"category": "c", "definition": 5}, {"category": "c", "definition": 0}, {"product": 1.5}, {"service": {}}, {"service": {"a": 1}}, {"category": False},
                  {"category": True}, {"category": "c", "x": 1, 2: 3}, {"category": 0.0, "product": "p"}, {"category": NAN}],
    "detection": [{"condition": "s"}, {"s": {"f": 1}}, {"s": {"f": 1}, "condition": []}, {"s": {"f": 1}, "condition": [[]]}, {"s": {"f": 1}, "condition": None},
                  {"s": {"f": 1}, "condition": {"a": 1}}, {"s": {}, "condition": "s"}, {"s": [], "condition": "s"}, {"s": [{}], "condition": "s"}, {"s": [[]], "condition": "s"},
                  {"s": [[{}]], "condition": "s"}, {"s": [[[1, [2, {"a": 1}]]]], "condition": "s"}, {"s": None, "condition": "s"}, {"s": INF, "condition": "s"},
                  {"s": [1, INF], "condition": "s"}, {"s": {1: "x"}, "condition": "s"}, {"s": {None: "x"}, "condition": "s"}, {"s": {True: "x"}, "condition": "s"},
                  {1: {"f": "x"}, "condition": "s"}, {None: "kw", "condition": "s"}, {"s": {"f|contains": [1, [2]]}, "condition": "s"}, {"s": {"f|contains": [[2], 1]}, "condition": "s"},
                  {"s": {"f|contains": [INF, 1]}, "condition": "s"}, {"s": {"f|bogus": [[2]]}, "condition": "s"}, {"s": {"f|startswith": None}, "condition": "s"},
                  {"s": {"f|endswith": True}, "condition": "s"}, {"s": {"f|re": 5}, "condition": "s"}, {"s": {"f|re": ["a+", 5]}, "condition": "s"}, {"s": {"|contains": "k"}, "condition": "s"},
                  {"s": {"": "k"}, "condition": "s"}, {"s": {"f|": "k"}, "condition": "s"}, {"s": {"f": {"g": 1}}, "condition": "s"}, {"s": {"f": [{"g": 1}]}, "condition": "s"},
                  {"s": {"a": 1, "b|bogus": 2, "c": [[1]]}, "condition": "s"}, {"s": {"a": [[1]], "b|bogus": 2}, "t": {}, "condition": "s"}, {"t": {}, "s": {"a": [[1]]}, "condition": "s"},
                  {"s": [{"a": 1}, "kw", 5, None, [1, 2]], "condition": "s"}, {"s": 2 ** 2000, "condition": "s"}, "condition", ["condition"], {"condition": []}],
}
FSPECIAL = {
    "filter": [{"rules": "any", "condition": "not f"}, {"rules": "ANY", "f": {"a": 1}, "condition": "not f"}, {"rules": [], "f": {"a": 1}, "condition": "not f"}, {"f": {"a": 1}, "condition": "not f"},
               {"rules": "any", "f": {"a": 1}}, {"rules": None, "f": {"a": 1}, "condition": "not f"}, {"rules": 5, "f": {"a": 1}, "condition": "not f"},
               {"rules": {"a": 1}, "f": {"a": 1}, "condition": "not f"}, {"rules": [5, None, ["x"]], "f": {"a": 1}, "condition": "not f"}, {"rules": "any", "f": {"a": 1}, "condition": ["not f"]},
               {"rules": "any", "f": {"a": 1}, "condition": None}, {"rules": "any", 1: {"a": 1}, "condition": "not f"}, {"rules": "any", "f": {1: 1}, "condition": "not f"},
               {"rules": "any", "f": {}, "condition": "not f"}, {"rules": "any", "f": {"a|bogus": 1}, "condition": "not f"}, {"rules": "any", "f": [[{}]], "condition": "not f"},
               ["condition", "rules"], "condition"],
}
RULE_ = {"title": "t", "logsource": {"category": "c"}, "detection": {"s": {"f": "x"}, "condition": "s"}}
FILT_ = {"title": "F", "logsource": {"category": "c"}, "filter": {"rules": "any", "flt": {"f": "a"}, "condition": "not flt"}}
CORR_ = {"title": "C", "correlation": {"type": "event_count", "rules": ["r"], "timespan": "1m", "condition": {"gte": 1}}}


def upd(base, path, value):
    return set_path(base, path, value)


# fixed sub-stream: the places where non-Sigma exceptions (or Sigma errors in collecting mode) used to escape
ESCAPES = [
    ("rule", upd(RULE_, ("detection", "s"), {1: "x"})), ("rule", upd(RULE_, ("detection", "s"), {True: "x"})), ("rule", upd(RULE_, ("detection", "s"), {2.5: "x"})),
    ("filter", upd(FILT_, ("filter", "flt"), {1: "x"})), ("filter", upd(FILT_, ("filter", "flt"), [[{1: 1}]])),
    ("corr", upd(CORR_, ("correlation", "condition"), {"gte": 1, 1: 2})), ("corr", upd(CORR_, ("correlation", "condition"), {"gte": 1, None: 2})),
    ("corr", upd(CORR_, ("correlation", "condition"), {"gte": 1, 1: 2, "a": 3})),
    ("corr", upd(CORR_, ("correlation", "condition"), {"gte": INF})), ("corr", upd(CORR_, ("correlation", "condition"), {"gte": -INF})),
    ("corr", upd(CORR_, ("correlation", "condition"), {"gte": 1, "percentile": INF})), ("corr", upd(CORR_, ("correlation", "condition"), {"gte": NAN})),
    ("corr", {"title": "t", "correlation": {"type": "temporal", "rules": [["n"]], "timespan": "1m", "condition": "r1 and r2"}}),
    ("corr", {"title": "t", "correlation": {"type": "temporal", "rules": [1], "timespan": "1m", "condition": "r1"}}),
    ("corr", {"title": "t", "correlation": {"type": "temporal", "rules": [1, "a"], "timespan": "1m", "condition": "r1"}}),
    ("corr", {"title": "t", "correlation": {"type": "temporal", "rules": [None, {}], "timespan": "1m", "condition": "r1"}}),
    ("corr", {"title": "t", "correlation": {"type": "temporal_ordered", "rules": ["r1", "r2"], "timespan": "1m", "condition": "r1 and r3"}}),
    ("collection", [{"action": "global", "detection": {"a": 1}}, {"detection": 5}]),
    ("collection", [{"action": "global", "x": {"a": {"b": 1}}}, {"x": {"a": [1]}}]),
    ("collection", [{"action": "global", "x": {"a": {"b": 1}}}, {"x": "str"}]),
    ("collection", [{"title": "t", "x": [1]}, {"action": "repeat", "x": {0: 2}}]),
    ("collection", [{"title": "t", "x": 5}, {"action": "repeat", "x": {"a": {"b": {}}}}]),
    ("collection", [dict(RULE_, name=["x"])]), ("collection", [dict(RULE_, name={"x": 1})]), ("collection", [dict(CORR_, name=["x"])]),
    ("collection", [dict(RULE_, name=5), dict(RULE_, name="n"), dict(RULE_, id=["x"])]),
    ("collection", [RULE_, dict(FILT_, logsource=5)]), ("collection", [RULE_, dict(FILT_, logsource={})]), ("collection", [dict(FILT_, logsource=5), RULE_]),
    ("collection", [RULE_, upd(FILT_, ("filter", "flt"), 5) | {"filter": {"rules": "any", 1: {"f": "a"}, "condition": "not flt"}}]),
    ("collection", [RULE_, dict(FILT_, filter={"rules": "any", None: {"f": "a"}, "condition": "not flt"})]),
    ("collection", [RULE_, dict(FILT_, filter={"rules": [0], "flt": {"f": "a"}, "condition": "not flt"})]),
    ("collection", [RULE_, dict(FILT_, filter={"rules": [["x"], True, 2.5, None], "flt": {"f": "a"}, "condition": "not flt"})]),
    ("collection", [dict(RULE_, detection=5), FILT_]), ("collection", [dict(RULE_, logsource=5), FILT_]), ("collection", [RULE_, FILT_, CORR_]),
    ("collection", [upd(RULE_, ("detection", "condition"), 5), FILT_]), ("collection", [upd(RULE_, ("detection", "condition"), [["a"], None]), FILT_]),
    ("collection", [RULE_, upd(FILT_, ("filter", "condition"), "x |")]), ("collection", [RULE_, upd(FILT_, ("filter", "condition"), "")]),
]
COLLECTIONS = [
    [{"action": "global", "title": "g", "logsource": {"category": "c"}}, {"detection": {"s": {"f": 1}, "condition": "s"}}, {"action": "repeat", "title": 5},
     {"action": "reset"}, {"detection": {"s": {"f": 1}, "condition": "s"}}],
    [{"action": "global", "title": "g", "logsource": {"category": "c"}, "detection": {"condition": "s"}}, {"action": "repeat", "detection": {"s": {"f": 1}}},
     {"detection": {"t": {"f|bogus": 1}}}, {"action": "repeat", "detection": {"t": {"g": 2}}}],
    [{"action": "repeat"}], [{"action": "repeat", "title": "t", "logsource": {"category": "c"}, "detection": {"s": {"f": 1}, "condition": "s"}}],
    [{"action": "global", "action2": 1}, {"action": "global", "title": "h"}, {"action": "repeat", "x": 1}, RULE_],
    [{"action": "global", "title": "g"}, {"action": "repeat", "logsource": {"product": "p"}}, {"detection": {"s": {"f": 1}, "condition": "s"}}],
    [{"action": None, "title": "x"}], [{"action": ""}], [{"action": 0}], [{"action": False}], [{"action": "Global"}], [{"action": "global"}, 5, "x", None, [RULE_]],
    [CORR_, {"action": "repeat", "title": "again"}], [FILT_, {"action": "repeat", "title": "again"}], [{"correlation": 5, "filter": 6}], [{"filter": 5}], [{"correlation": None}],
    [{"action": "global", "correlation": {"type": "temporal"}}, {"title": "t"}], [{"action": "global", "filter": {"rules": "any"}}, {"title": "t"}],
    [{"action": "global", "tags": ["a.b"], "detection": {"s": {"f": [1]}}}, {"title": "t", "tags": "x", "logsource": {"category": "c"}, "detection": {"s": {"g": 2}, "condition": "s"}}],
    [], {}, {"action": "global"}, 5, None, "str", [[]], [{}],
]


ID1, ID2, ID3 = UUID_, "08fbc97d-0a2f-491c-ae21-8ffcfd3174e9", "11111111-2222-3333-4444-555555555555"


def _rule(**kw):
    return dict(RULE_, **kw)


def _corr(rules=None, cond=None, ctype="event_count", **kw):
    c = {"type": ctype, "timespan": "1m"}
    if rules is not None:
        c["rules"] = rules
    c["condition"] = cond if cond is not None else {"gte": 1}
    return dict({"title": "C", "correlation": c}, **kw)


# collections loaded with reference resolution (the default): references present / missing / partly missing, by name and by id
REFS = [
    [_rule(name="r1"), _corr(["r1"])], [_rule(name="r1"), _corr(["r2"])], [_rule(name="r1"), _rule(name="r2"), _corr(["r1", "r2"])],
    [_rule(name="r1"), _corr(["r1", "r2"])], [_rule(name="r1"), _corr(["r2", "r1"])], [_corr(["r1"]), _rule(name="r1")], [_corr(["r1"])], [_corr([])], [_corr("r1"), _rule(name="r1")],
    [_rule(id=ID1), _corr([ID1])], [_rule(id=ID1), _corr([ID2])], [_rule(id=ID1), _corr([ID1.upper()])], [_rule(id=ID1.upper()), _corr(["{" + ID1 + "}"])],
    [_rule(id=ID1), _corr(["urn:uuid:" + ID1, ID1.replace("-", "")])], [_rule(id=ID1, name="r1"), _corr([ID1, "r1"])], [_rule(id=ID1, name="r1"), _corr([ID1, "r2"])],
    [_rule(id=ID1, name="r1"), _corr(["r1", ID2])], [_rule(name=ID1), _corr([ID1])], [_rule(id=ID1, name=ID2), _corr([ID2])], [_rule(id="not-a-uuid"), _corr(["not-a-uuid"])],
    [_rule(id="not-a-uuid", name="not-a-uuid"), _corr(["not-a-uuid"])], [_rule(name=""), _corr([""])], [_rule(name="r1"), _corr(["R1"])], [_rule(name="r1 "), _corr(["r1"])],
    [_rule(name="r1"), _corr(["r1"], name="c1"), _corr(["c1"], title="C2")], [_rule(name="r1"), _corr(["c2"], name="c1"), _corr(["c1"], name="c2")], [_corr(["c1"], name="c1")],
    [_rule(name="r1"), _corr(["r1"], name="c1", id=ID2), _corr([ID2, "r1"], title="C2")], [_rule(name="r1"), _corr(["r1"], id=ID2), _corr([ID3], title="C2")],
    [_rule(name="r1"), _rule(name="r2"), _corr(None, "r1 and not r2", "temporal")], [_rule(name="r1"), _corr(None, "r1 and not r2", "temporal")], [_rule(name="r1"), _corr(None, "r1 or r1", "temporal_ordered")],
    [_rule(name="r1"), _rule(name="r2"), _corr(["r1", "r2"], "r1 and r2", "temporal")], [_rule(name="r1"), _corr(["r1", "r2"], "r1 and r2", "temporal")],
    [_rule(name="r1"), _corr(None, "r1 and", "temporal")], [_rule(name="and"), _corr(None, "and", "temporal")], [_rule(name="r1"), _corr(None, None, "temporal")],
    # rules loaded with errors are still registered in collecting mode
    [_rule(name="r1", title=5), _corr(["r1"])], [_rule(name="r1", detection=5), _corr(["r1"])], [_rule(name=5), _corr(["5"])], [_rule(name=["r1"]), _corr(["r1"])],
    [_rule(id=5), _corr(["5"])], [_rule(id=ID1, level="bogus"), _corr([ID1])], [_rule(name="r1"), _corr(["r1"], title=None)], [_rule(name="r1"), _corr(["r2"], title=None)],
    [_rule(name="r1"), _corr(["r1", 5])], [_rule(name="r1"), _corr({"r1": 1})], [_rule(name="r1"), _corr(["r1"], cond={"gte": "x"})], [_rule(name="r1"), _corr(["r2"], cond={"gte": "x"})],
    [_rule(name="r1"), _corr(["r1"], generate="yes")], [_rule(name="r1"), _corr(["r1"], ctype="bogus")], [_rule(name="r1"), _corr(["r2"], ctype="value_count")],
    [_rule(name="r1"), _corr(["r1"], "r1", "temporal"), 5], [5, _rule(name="r1"), _corr(["r2"])], [_rule(name="r1"), {"action": "bogus"}, _corr(["r2"])],
    # global / repeat documents define the referenced names; filters are never referenced
    [{"action": "global", "name": "g"}, _rule(), _corr(["g"])], [{"action": "global", "id": ID1}, _rule(), _rule(title="t2"), _corr([ID1])],
    [_rule(name="r1"), {"action": "repeat", "name": "r2"}, _corr(["r1", "r2"])], [_rule(name="r1"), {"action": "repeat", "name": "r2"}, _corr(["r1"])],
    [dict(FILT_, name="f1"), _corr(["f1"])], [_rule(name="r1"), dict(FILT_, name="f1"), _corr(["r1"])], [_rule(name="r1"), FILT_, _corr(["r2"])],
    [_rule(name="r1"), _corr(["r1"]), _corr(["zz"], title="C2"), _corr(["yy"], title="C3")], [_rule(name="r1"), _rule(name="r1", title="again"), _corr(["r1"])],
]


# round 5: single-error mutations per kind (path, value); all pairs of mutations at different paths give documents with two errors
ERR1 = {
    "rule": [(("status",), "bogus"), (("level",), "bogus"), (("date",), "2024-02-30"), (("modified",), "24-01-01"), (("id",), "not-a-uuid"), (("tags",), ["nonamespace"]),
             (("license",), 5), (("related",), [{"id": "x", "type": "derived"}]), (("related",), [{"id": "08fbc97d-0a2f-491c-ae21-8ffcfd3174e9", "type": "bogus"}]),
             (("title",), 5), (("taxonomy",), 5), (("scope",), 5), (("logsource",), {}), (("detection", "condition"), "sel and"), (("detection", "sel"), {"f|bogus": 1})],
    "corr": [(("status",), "bogus"), (("level",), "bogus"), (("id",), "not-a-uuid"), (("correlation", "timespan"), "5x"), (("correlation", "type"), "bogus"),
             (("correlation", "condition"), {"gte": "x"}), (("correlation", "aliases"), {"u": 5}), (("correlation", "generate"), "yes"), (("correlation", "group-by"), 5),
             (("correlation", "rules"), 5), (("title",), 5), (("tags",), ["nonamespace"]), (("date",), "2024-02-30")],
    "filter": [(("id",), "not-a-uuid"), (("status",), "bogus"), (("level",), "bogus"), (("tags",), ["nonamespace"]), (("date",), "2024-02-30"), (("title",), 5),
               (("logsource",), 5), (("filter", "rules"), 5), (("filter", "condition"), ["not flt"]), (("filter", "flt"), {"f|bogus": 1})],
}
FILE_NAMES = ["a.yml", "b.yml", "m.yml", "z.yml", "B.yml", "0.yml", "_x.yml", "sub/c.yml", "sub/y.yml", "zz/a.yml", "zz/n.yml", "10.yml", "9.yml"]


def _xcorr(ctype, rules, cond, **kw):
    """a complete, otherwise valid correlation rule document (all optional attributes of the first base) with the given section"""
    d = copy.deepcopy(BASES["corr"][0])
    c = {"type": ctype, "group-by": ["u"], "timespan": "5m", "generate": True}
    if rules is not None:
        c["rules"] = rules
    if cond is not None:
        c["condition"] = cond
    d["correlation"] = c
    d.update(kw)
    return d


# correlation rules whose only defect is a cross-field inconsistency (what the constructor's `_validate` checks, and the checks of
# from_dict that depend on two fields); the last entries are the consistent neighbours (they load)
CROSS = (
    [_xcorr(t, ["r1"], {"gte": 1}) for t in ("value_count", "value_sum", "value_avg", "value_percentile", "value_median")] +   # no field
    [_xcorr("value_count", ["r1"], {"gte": 1, "field": None}), _xcorr("value_percentile", "r1", {"gt": 1, "percentile": 95}),
     _xcorr("event_count", ["r1"], None), _xcorr("value_count", ["r1"], None), _xcorr("value_sum", None, None),                  # non-temporal, no condition
     _xcorr("event_count", None, {"gte": 1}), _xcorr("value_avg", None, {"gte": 1, "field": "f"}),                               # non-temporal, no rules
     _xcorr("temporal", ["r1", "r2"], "r1"), _xcorr("temporal_ordered", ["r1", "r2", "r3"], "r1 and not r3"),                    # listed, not mentioned
     _xcorr("temporal", ["r1"], "r1 and r2"), _xcorr("temporal_ordered", ["r1"], "(r1 or r2) and r3"),                           # mentioned, not listed
     _xcorr("temporal", ["r1", "r2"], "r3 or r4"), _xcorr("temporal", "r1", "r2"),
     _xcorr("event_count", ["r1", "r2"], "r1 and r2"), _xcorr("value_count", ["r1", "r2"], "r1 and r2"),                         # extended, non-temporal
     _xcorr("value_median", None, "r1 and r2"), _xcorr("event_count", None, "r1"),
     _xcorr("temporal", ["r1", "r2"], "r1 and r2"), _xcorr("temporal", [], "r1 and r2"), _xcorr("temporal", None, "r1 or r2"),    # consistent
     _xcorr("temporal_ordered", ["r1", "r2"], None), _xcorr("temporal", None, None), _xcorr("temporal", ["r1"], {"gte": 1}),
     _xcorr("value_count", ["r1"], {"gte": 1, "field": "f"})])


def cross_field():
    """the documents of CROSS alone and with one further single-error mutation"""
    out = []
    for d in CROSS:
        out.append((d, "cross"))
        for p_, v_ in ERR1["corr"]:
            m = copy.deepcopy(d)
            cur = m
            for q in p_[:-1]:
                cur = cur[q]
            cur[p_[-1]] = copy.deepcopy(v_)
            out.append((m, "cross+1"))
    return out


def two_errors():
    out = []
    for kind, muts in ERR1.items():
        base = BASES[kind][0]
        for i, (p1, v1) in enumerate(muts):
            for p2, v2 in muts[i + 1:]:
                if p1[:len(p2)] == p2 or p2[:len(p1)] == p1:
                    continue
                d = copy.deepcopy(base)
                for p_, v_ in ((p1, v1), (p2, v2)):
                    cur = d
                    for q in p_[:-1]:
                        cur = cur[q]
                    cur[p_[-1]] = copy.deepcopy(v_)
                out.append((kind, d))
    return out


def ruleset_layouts(rnd, colls, n):
    """round 5: rule sets of several files; file names, directories and input order are independent of the order of the files"""
    import itertools
    tagl = dict(RULE_, title="two errors", tags=["nonamespace"], license=5)
    broken = [[dict(RULE_, title="bad level", level="catastrophic")], [dict(RULE_, title="bad status", status="finished")], [{"action": "frobnicate", "title": "unknown action"}],
              [upd(dict(CORR_, title="bad timespan"), ("correlation", "timespan"), "5 minutes")]]
    pool = broken + [[tagl], [dict(RULE_, title="valid", name="valid_rule")], [5], [dict(RULE_, title="valid first"), dict(RULE_, title="then bad date", date="2024-02-30")],
                     [dict(CORR_, title="dangling reference")], [dict(FILT_, logsource=5)]]
    cases = []
    names4 = ["a.yml", "b.yml", "m.yml", "z.yml"]
    for k in (2, 3):            # every order of k of the four broken files; the names follow the pool, not the input order
        for order in itertools.permutations(range(4), k):
            cases.append(([broken[i] for i in order], {"names": [names4[i] for i in order], "inputs": [names4[i] for i in order]}, "ruleset-orders"))
    for _ in range(n):
        k = rnd.randint(2, 4)
        files = [copy.deepcopy(rnd.choice(pool)) if rnd.random() < 0.8 else rnd.choice(colls)["doc"] for _ in range(k)]
        names = rnd.sample(FILE_NAMES, k)
        r = rnd.random()
        if r < 0.55:
            inputs = list(names)
        elif r < 0.8:
            inputs = ["."]
        else:                   # the sub-directories first or last, the files of the top directory one by one
            dirs = sorted({nm.split("/")[0] for nm in names if "/" in nm})
            top = [nm for nm in names if "/" not in nm]
            inputs = dirs + top if rnd.random() < 0.5 else top + dirs
        cases.append((files, {"names": names, "inputs": inputs}, "ruleset-files"))
    return cases


def gen_cases(tier, seed, gen, effort):
    rnd = random.Random(seed * 10007 + 7)
    thorough = tier == "thorough"
    cases = []
    for doc in REFS:
        cases.append({"kind": "collection_refs", "doc": doc, "mut": "refs"})
    for kind, doc in ESCAPES:
        cases.append({"kind": kind, "doc": doc, "mut": "escape"})
    for doc in COLLECTIONS:
        cases.append({"kind": "collection", "doc": doc, "mut": "collection2"})
    for kind, bases in BASES2.items():
        for base in bases:
            cases.append({"kind": kind, "doc": base, "mut": "base"})
            for path in paths(base):
                if not path:
                    continue
                for v in REPL2:
                    cases.append({"kind": kind, "doc": set_path(base, path, v), "mut": f"set2:{path}"})
                if isinstance(path[-1], str):
                    for v in SPECIAL2.get(path[-1], []) + (FSPECIAL.get(path[-1], []) if kind == "filter" else []):
                        if kind == "filter" and path[-1] in ("rules", "condition"):
                            continue                      # those lists are for correlation sections
                        cases.append({"kind": kind, "doc": set_path(base, path, v), "mut": f"special2:{path}"})
                    for k in KEYS2:                        # rename the key (the renamed entry moves to the end)
                        d = set_path(base, path, None, delete=True)
                        parent = d
                        for p_ in path[:-1]:
                            parent = parent[p_]
                        if k in parent:
                            continue
                        val = base
                        for p_ in path:
                            val = val[p_]
                        parent[k] = copy.deepcopy(val)
                        cases.append({"kind": kind, "doc": d, "mut": f"key:{path}"})
            # multi-point mutations: two or three random paths get random values
            for _ in range((150 if not thorough else 1500) * effort):
                d = base
                for _ in range(rnd.randint(2, 3)):
                    ps = [p_ for p_ in paths(d) if p_]
                    if not ps:
                        break
                    path = rnd.choice(ps)
                    pool = REPL + REPL2 + (SPECIAL2.get(path[-1], []) if isinstance(path[-1], str) else [])
                    d = set_path(d, path, rnd.choice(pool)) if rnd.random() < 0.85 else set_path(d, path, None, delete=True)
                cases.append({"kind": kind, "doc": d, "mut": "multi"})
    # any single document is also a one-document collection; and pairs of documents
    singles = [c for c in cases if c["kind"] != "collection"]
    for c in rnd.sample(singles, min(len(singles), (300 if not thorough else 3000) * effort)):
        cases.append({"kind": "collection", "doc": [c["doc"]], "mut": "single-as-collection"})
    for _ in range((200 if not thorough else 2000) * effort):
        a, b = rnd.choice(singles)["doc"], rnd.choice(singles)["doc"]
        pre = rnd.choice([[], [{"action": "global", "title": "G", "level": "low", "logsource": {"product": "p"}}], [{"action": "global", "detection": {"extra": {"z": 1}}}]])
        mid = rnd.choice([[], [{"action": "reset"}], [{"action": "repeat", "status": "stable", "detection": {"more": ["kw"]}}]])
        cases.append({"kind": "collection", "doc": pre + [a] + mid + [b], "mut": "pair-collection"})
    # with reference resolution: the fixed collections, and seeded mixes of reference cases with mutated documents
    for c in [c for c in cases if c["kind"] == "collection" and c["mut"] in ("escape", "collection2")]:
        cases.append({"kind": "collection_refs", "doc": c["doc"], "mut": "refs-" + c["mut"]})
    names = ["r1", "r2", "c1", ID1, ID2, "nm", "cn", "0e95725d-7320-415d-80f7-004da920fc11", "929a690e-bef0-4204-a928-ef5e620d6fcc"]
    for _ in range((250 if not thorough else 2500) * effort):
        docs = []
        for _ in range(rnd.randint(1, 4)):
            r = rnd.random()
            if r < 0.35:
                docs.append(_rule(**{rnd.choice(["name", "id"]): rnd.choice(names)}))
            elif r < 0.7:
                docs.append(_corr(rnd.choice([None] + [rnd.sample(names, rnd.randint(0, 3)) for _ in range(3)]),
                                  rnd.choice([None, {"gte": 1}, "r1 and r2", "r1 or c1", "r1"]), rnd.choice(["event_count", "temporal", "temporal_ordered", "value_count"]),
                                  **rnd.choice([{}, {"name": rnd.choice(names)}, {"id": rnd.choice(names)}])))
            else:
                docs.append(rnd.choice(singles)["doc"])
        rnd.shuffle(docs)
        cases.append({"kind": "collection_refs", "doc": docs, "mut": "refs-random"})
    for kind, bases in BASES.items():
        for base in bases:
            cases.append({"kind": kind, "doc": base, "mut": "base"})
            for path in paths(base):
                if not path:
                    for v in REPL:
                        cases.append({"kind": kind, "doc": v, "mut": "root"})
                    continue
                cases.append({"kind": kind, "doc": set_path(base, path, None, delete=True), "mut": f"del:{path}"})
                for v in REPL:
                    cases.append({"kind": kind, "doc": set_path(base, path, v), "mut": f"set:{path}"})
                for v in SPECIAL.get(path[-1], []) if isinstance(path[-1], str) else []:
                    cases.append({"kind": kind, "doc": set_path(base, path, v), "mut": f"special:{path}"})
    for _ in range((400 if not thorough else 8000) * effort):
        cases.append({"kind": rnd.choice(["rule", "corr", "filter", "collection"]), "doc": rand_yaml(rnd), "mut": "random"})
    for v in [[{"action": "global", "title": "g"}, {"detection": {"s": {"f": 1}, "condition": "s"}, "logsource": {"category": "c"}}],
              [{"action": "bogus"}], [{"action": "repeat"}], [5], ["str"], [None], [{"action": "reset"}, {"title": "x"}]]:
        cases.append({"kind": "collection", "doc": v, "mut": "collection"})
    # cases carry the document in the portable encoding (replayable: non-string keys, inf/nan survive)
    # rule sets loaded from files (load_ruleset): one file with the documents of a collection case next to a valid file; the errors
    # of every file - also of a file that holds no rule at all - reach the merged collection
    colls = [c for c in cases if c["kind"] == "collection" and isinstance(c["doc"], list)]
    for c in rnd.sample(colls, min(len(colls), (150 if not thorough else 1500) * effort)) + \
            [{"doc": v, "mut": "fixed"} for v in ([5], ["str"], [None], [{"action": "bogus"}], [[1, 2]], [{"action": "bogus"}, 5], [], [RULE_], [dict(RULE_, level="bogus")])]:
        cases.append({"kind": "ruleset", "doc": [[dict(RULE_, title="valid one")], c["doc"]], "mut": "ruleset:" + c["mut"].split(":")[0]})
    # round 5 (own random stream: the cases above stay as they were)
    rnd5 = random.Random(seed * 7121 + 75)
    for kind, d in two_errors():
        cases.append({"kind": kind, "doc": d, "mut": "two-errors"})
        cases.append({"kind": "collection", "doc": [d], "mut": "two-errors"})
        cases.append({"kind": "ruleset", "doc": [[dict(RULE_, title="valid one")], [d]], "mut": "ruleset:two-errors"})
    for d, mut in cross_field():
        cases.append({"kind": "corr", "doc": d, "mut": mut})
        cases.append({"kind": "collection", "doc": [d], "mut": mut})
        cases.append({"kind": "collection_refs", "doc": [dict(RULE_, name="r1"), d, dict(RULE_, name="r2", title="t2")], "mut": mut})
        cases.append({"kind": "ruleset", "doc": [[d]], "mut": "ruleset:" + mut})
    for files, layout, mut in ruleset_layouts(rnd5, colls, (250 if not thorough else 2500) * effort):
        cases.append({"kind": "ruleset", "doc": files, "mut": mut, "layout": layout})
    return [dict({"kind": c["kind"], "show": repr(c["doc"])[:100], "mut": c["mut"], "doc": penc(c["doc"])}, **({"layout": c["layout"]} if "layout" in c else {})) for c in cases], False


def load(kind, doc, collect, layout=None):
    from sigma.rule import SigmaRule
    from sigma.correlations import SigmaCorrelationRule
    from sigma.filters import SigmaFilter
    from sigma.collection import SigmaCollection
    doc = copy.deepcopy(doc)
    if kind == "ruleset":
        import shutil, yaml
        d = os.path.join(WORK, f"c07rs_{os.getpid()}")        # the same path for the strict and the collecting load: messages name the file
        shutil.rmtree(d, ignore_errors=True)
        os.makedirs(d)
        try:
            for i, docs in enumerate(doc):
                fn = os.path.join(d, layout["names"][i] if layout else f"f{i}.yml")
                os.makedirs(os.path.dirname(fn), exist_ok=True)
                with open(fn, "w") as f:
                    yaml.safe_dump_all(docs if isinstance(docs, list) else [docs], f)
            inputs = [os.path.normpath(os.path.join(d, x)) for x in layout["inputs"]] if layout else [d]
            return SigmaCollection.load_ruleset(inputs, collect_errors=collect)
        finally:
            shutil.rmtree(d, ignore_errors=True)
    if kind == "rule":
        return SigmaRule.from_dict(doc, collect_errors=collect)
    if kind == "corr":
        return SigmaCorrelationRule.from_dict(doc, collect_errors=collect)
    if kind == "filter":
        return SigmaFilter.from_dict(doc, collect_errors=collect)
    if kind == "collection_refs":    # the default: rule references of correlation rules are resolved
        return SigmaCollection.from_dicts(doc if isinstance(doc, list) else [doc], collect_errors=collect)
    return SigmaCollection.from_dicts(doc if isinstance(doc, list) else [doc], collect_errors=collect, resolve_references=False)


def run_impl(case):
    out = {}
    doc = dec(case["doc"])
    try:
        load(case["kind"], doc, False, case.get("layout"))
        out["strict"] = "ok"
    except Exception as e:
        out["strict"] = outcome_of_exception(e)
        out["strict_msg"] = str(e)[:200]
        out["strict_src"] = srcname(e)
        import traceback
        tb = traceback.extract_tb(e.__traceback__)
        site = [f for f in tb if "/sigma/" in f.filename]
        out["site"] = f"{site[-1].filename.split('/sigma/')[-1]}:{site[-1].name}" if site else "?"
    try:
        obj = load(case["kind"], doc, True, case.get("layout"))
        errs = list(obj.errors)
        out["collect"] = "ok"
        out["nerr"] = len(errs)
        out["errs"] = [type(e).__name__ for e in errs]
        if errs:
            out["first"] = f"sigma:{type(errs[0]).__name__}" if hasattr(errs[0], "source") or True else "?"
            out["first_msg"] = str(errs[0])[:200]
            out["first_src"] = srcname(errs[0])
            out["srcs"] = [srcname(e) for e in errs][:12]
    except Exception as e:
        out["collect"] = outcome_of_exception(e)
        out["collect_msg"] = str(e)[:200]
        import traceback
        tb = traceback.extract_tb(e.__traceback__)
        site = [f for f in tb if "/sigma/" in f.filename]
        out["csite"] = f"{site[-1].filename.split('/sigma/')[-1]}:{site[-1].name}" if site else "?"
    out["outcome"] = "ok"
    return out


def srcname(e):
    """the source location of an error (part of the identity of a Sigma error), relative to the rule set directory"""
    src = getattr(e, "source", None)
    if src is None:
        return None
    t = str(src)
    k = t.find(f"c07rs_{os.getpid()}")
    return t[k + len(f"c07rs_{os.getpid()}") + 1:] if k >= 0 else t


def penc(v):
    """YAML value -> portable JSON (stored in cases and replay files): maps keep their order and their
    non-string keys, non-finite floats survive."""
    if v is None or isinstance(v, bool):
        return v
    if isinstance(v, int):
        return {"i": v}
    if isinstance(v, float):
        return {"f": repr(v)}
    if isinstance(v, str):
        return {"s": v}
    if isinstance(v, list):
        return {"l": [penc(x) for x in v]}
    if isinstance(v, dict):
        return {"m": [[penc(k), penc(x)] for k, x in v.items()]}
    raise TypeError(f"not a YAML value of the modelled fragment: {type(v)}")


def dec(j):
    """portable JSON -> YAML value"""
    if j is None or isinstance(j, bool):
        return j
    if "i" in j:
        return j["i"]
    if "f" in j:
        return float(j["f"])
    if "s" in j:
        return j["s"]
    if "l" in j:
        return [dec(x) for x in j["l"]]
    return {dec(k): dec(x) for k, x in j["m"]}


def enc(j):
    """portable JSON -> driver JSON (strings as code point arrays)"""
    if j is None or isinstance(j, bool):
        return j
    if "i" in j:
        return j
    if "f" in j:
        return {"f": cps(j["f"])}
    if "s" in j:
        return {"s": cps(j["s"])}
    if "l" in j:
        return {"l": [enc(x) for x in j["l"]]}
    return {"m": [[enc(k), enc(x)] for k, x in j["m"]]}


def make_request(case, impl, gen):
    if case["kind"] == "ruleset":
        return {"op": "ping"}          # file loading is not modelled: judged on the real code only
    return {"op": "load.case", "kind": case["kind"], "doc": enc(case["doc"])}


def judge(case, impl, reply):
    """The deciding judgement on the real code (`judge_impl`), then the model comparison."""
    v = judge_impl(case, impl)
    if v.status == "violation":
        return v
    if case["kind"] == "ruleset":
        v.tags = tuple(v.tags) + ("model:not-modelled",)
        return v
    dom = "inDomain" if reply["inDomain"] else "outOfDomain"
    v.tags = tuple(v.tags) + (f"model:{dom}", f"model:{case['kind']}:{dom}")
    if not reply["inDomain"]:
        return v
    py = lambda o: o.replace("py:", "other:", 1)
    m_strict, m_collect, m_errs = py(reply["strict"]), py(reply["collect"]), reply["errors"]
    i_errs = impl.get("errs", []) if impl["collect"] == "ok" else []
    if (m_strict, m_collect, m_errs) != (impl["strict"], impl["collect"], i_errs):
        what = (f"{case['kind']}: model strict={m_strict} collect={m_collect} errors={m_errs} but implementation "
                f"strict={impl['strict']} collect={impl['collect']} errors={i_errs} :: {case['mut']} :: {repr(dec(case['doc']))[:400]}")
        print("DRIFT " + what, file=sys.stderr)
        return Verdict("drift", what, v.nontrivial, v.key, tags=v.tags + ("model:drift",))
    return v


def judge_impl(case, impl):
    doc = dec(case["doc"])
    key = (case["kind"], repr(doc))
    nt = case["mut"] != "base"
    tags = [f"kind:{case['kind']}", f"strict:{impl['strict'].split(':')[0]}", f"collect:{impl['collect'].split(':')[0]}", f"mut:{case['mut'].split(':')[0]}"]
    doc_s = repr(doc)[:300]
    if case.get("layout"):
        doc_s = f"load_ruleset({case['layout']['inputs']}) with the files {dict(zip(case['layout']['names'], doc))}"[:900]
        key = key + (repr(case["layout"]),)
    if impl["strict"].startswith("other:"):
        return Verdict("violation", f"strict loading of a {case['kind']} raised non-Sigma {impl['strict']} at {impl['site']}: {impl['strict_msg']} :: {case['mut']} :: {doc_s}",
                       nt, key, tags=tuple(tags + [f"site:{impl['site']}"]))
    if impl["collect"] != "ok":
        return Verdict("violation", f"{case['kind']}: loading with collect_errors=True raised {impl['collect']} at {impl.get('csite')}: {impl.get('collect_msg')} "
                                    f"(strict loading: {impl['strict']}) :: {case['mut']} :: {doc_s}",
                       nt, key, tags=tuple(tags + [f"site:{impl.get('csite')}"]))
    strict_fails = impl["strict"] != "ok"
    if strict_fails != (impl["nerr"] > 0):
        return Verdict("violation", f"{case['kind']}: strict loading {'raises ' + impl['strict'] if strict_fails else 'succeeds'} but collecting mode has {impl['nerr']} errors :: {case['mut']} :: {doc_s}",
                       nt, key, tags=tuple(tags))
    import re as _re
    norm = lambda m: _re.sub(r"0x[0-9a-f]+", "0x", m or "")     # object addresses in messages are C20's subject
    if strict_fails and (impl["first"] != impl["strict"] or norm(impl["first_msg"]) != norm(impl["strict_msg"])):
        return Verdict("violation", f"{case['kind']}: strict raises {impl['strict']} ({impl['strict_msg']!r}) but the first collected error is {impl['first']} ({impl['first_msg']!r}) :: {case['mut']} :: {doc_s}",
                       nt, key, tags=tuple(tags))
    if strict_fails and "strict_src" in impl and impl["strict_src"] != impl.get("first_src"):
        return Verdict("violation", f"{case['kind']}: strict raises {impl['strict']} ({impl['strict_msg']!r}) located in {impl['strict_src']} but the first collected error is located in "
                                    f"{impl.get('first_src')} (collected: {list(zip(impl['errs'], impl.get('srcs', [])))[:6]}) :: {case['mut']} :: {doc_s}", nt, key, tags=tuple(tags))
    return Verdict("ok", "", nt, key, tags=tuple(tags))
