"""C07 — malformed documents raise Sigma errors only; collecting mode never raises.

Valid rule / correlation / filter documents are mutated at every path: every value replaced by every YAML type
(null, bool, int, float, string, empty string, list, map, nested), every key deleted, out-of-range enum / date /
UUID / timespan / operator values; plus arbitrary nested YAML.  Each document is loaded strictly and with error
collection.  Deciding: strict loading succeeds or raises an exception from the Sigma hierarchy; collecting
loading never raises; its error list is non-empty exactly when strict loading raises, and its first error is
the one strict loading raises (same class and message)."""
from __future__ import annotations
import copy, random
from .common import Verdict, outcome_of_exception

ID = "C07"
GEN = []
RULE = ("three valid base documents per kind (rule, correlation, filter) x every path x 12 replacement values of every YAML "
        "type + key deletion + out-of-range values for enums/dates/UUIDs/timespans/operators; collection level: action keys, "
        "non-map documents; plus seeded random nested YAML; distinct = distinct (kind, document); non-trivial = a mutated "
        "(not the base) document")
ASSUMPTIONS = [
    "documents are YAML-representable Python values (no custom tags); loading goes through from_dict / SigmaCollection.from_dicts",
    "'the same error' = same exception class and same message text",
]
REPL = [None, True, 0, -1, 3.5, "", "str", "2024-13-45", [], ["x"], {}, {"k": "v"}, [["n"]], {"a": {"b": [1, {"c": None}]}}]
SPECIAL = {"id": ["not-a-uuid", "1234", 5], "status": ["bogus"], "level": ["bogus"], "date": ["2024-02-30", "24-01-01", "2024/1/1"],
           "timespan": ["5x", "m5", "", "0", "-1m", 5, "1.5h"], "type": ["bogus", 5], "gte": ["x", None, 1.5], "rules": ["any", "ANY", 5]}

BASES = {
    "rule": [
        {"title": "T", "id": "929a690e-bef0-4204-a928-ef5e620d6fcc", "name": "nm", "status": "test", "level": "high", "description": "d", "author": "a",
         "date": "2024-01-31", "modified": "2024/02/01", "tags": ["attack.t1059"], "references": ["https://x"], "falsepositives": ["fp"], "fields": ["f"],
         "related": [{"id": "08fbc97d-0a2f-491c-ae21-8ffcfd3174e9", "type": "derived"}], "taxonomy": "sigma", "license": "MIT", "scope": ["s"],
         "logsource": {"category": "c", "product": "p", "service": "s", "definition": "d"},
         "detection": {"sel": {"f|contains": ["a", "b"], "g": 1}, "flt": [{"h": "x"}, {"i|re": "y+"}], "kw": ["k1", "k2"], "condition": ["sel and not flt", "1 of them"]}},
    ],
    "corr": [
        {"title": "C", "id": "0e95725d-7320-415d-80f7-004da920fc11", "name": "cn", "status": "test", "level": "high",
         "correlation": {"type": "event_count", "rules": ["r1", "r2"], "group-by": ["u"], "timespan": "5m", "condition": {"gte": 10}, "generate": True,
                         "aliases": {"u": {"r1": "user", "r2": "usr"}}}},
        {"title": "C2", "correlation": {"type": "value_count", "rules": ["r1"], "timespan": "1h", "condition": {"lt": 3, "field": "f"}}},
        {"title": "C3", "correlation": {"type": "temporal", "timespan": "1d", "group-by": ["u"], "condition": "r1 and not r2"}},
    ],
    "filter": [
        {"title": "F", "id": "11111111-2222-3333-4444-555555555555", "logsource": {"category": "c"},
         "filter": {"rules": ["r1"], "flt": {"f": "a"}, "flt2": {"g|contains": ["x"]}, "condition": "not flt"}},
    ],
}


def paths(d, pre=()):
    yield pre
    if isinstance(d, dict):
        for k, v in d.items():
            yield from paths(v, pre + (k,))
    elif isinstance(d, list):
        for i, v in enumerate(d):
            yield from paths(v, pre + (i,))


def set_path(d, path, value, delete=False):
    d = copy.deepcopy(d)
    if not path:
        return value
    cur = d
    for p in path[:-1]:
        cur = cur[p]
    if delete:
        if isinstance(cur, dict):
            del cur[path[-1]]
        else:
            cur.pop(path[-1])
    else:
        cur[path[-1]] = value
    return d


def rand_yaml(rnd, depth=3):
    r = rnd.random()
    if depth == 0 or r < 0.35:
        return rnd.choice([None, True, 1, 2.5, "s", "", "title", "detection"])
    if r < 0.65:
        return [rand_yaml(rnd, depth - 1) for _ in range(rnd.randint(0, 3))]
    keys = ["title", "detection", "condition", "logsource", "correlation", "filter", "rules", "type", "timespan", "id", "x", "action", 1, None]
    return {rnd.choice(keys): rand_yaml(rnd, depth - 1) for _ in range(rnd.randint(0, 4))}


def gen_cases(tier, seed, gen, effort):
    rnd = random.Random(seed * 10007 + 7)
    thorough = tier == "thorough"
    cases = []
    for kind, bases in BASES.items():
        for base in bases:
            cases.append({"kind": kind, "doc": base, "mut": "base"})
            for path in paths(base):
                if not path:
                    for v in REPL:
                        cases.append({"kind": kind, "doc": v, "mut": "root"})
                    continue
                cases.append({"kind": kind, "doc": set_path(base, path, None, delete=True), "mut": f"del:{path}"})
                for v in REPL:
                    cases.append({"kind": kind, "doc": set_path(base, path, v), "mut": f"set:{path}"})
                for v in SPECIAL.get(path[-1], []) if isinstance(path[-1], str) else []:
                    cases.append({"kind": kind, "doc": set_path(base, path, v), "mut": f"special:{path}"})
    for _ in range((400 if not thorough else 8000) * effort):
        cases.append({"kind": rnd.choice(["rule", "corr", "filter", "collection"]), "doc": rand_yaml(rnd), "mut": "random"})
    for v in [[{"action": "global", "title": "g"}, {"detection": {"s": {"f": 1}, "condition": "s"}, "logsource": {"category": "c"}}],
              [{"action": "bogus"}], [{"action": "repeat"}], [5], ["str"], [None], [{"action": "reset"}, {"title": "x"}]]:
        cases.append({"kind": "collection", "doc": v, "mut": "collection"})
    return cases, False


def load(kind, doc, collect):
    from sigma.rule import SigmaRule
    from sigma.correlations import SigmaCorrelationRule
    from sigma.filters import SigmaFilter
    from sigma.collection import SigmaCollection
    doc = copy.deepcopy(doc)
    if kind == "rule":
        return SigmaRule.from_dict(doc, collect_errors=collect)
    if kind == "corr":
        return SigmaCorrelationRule.from_dict(doc, collect_errors=collect)
    if kind == "filter":
        return SigmaFilter.from_dict(doc, collect_errors=collect)
    return SigmaCollection.from_dicts(doc if isinstance(doc, list) else [doc], collect_errors=collect, resolve_references=False)


def run_impl(case):
    out = {}
    try:
        load(case["kind"], case["doc"], False)
        out["strict"] = "ok"
    except Exception as e:
        out["strict"] = outcome_of_exception(e)
        out["strict_msg"] = str(e)[:200]
        import traceback
        tb = traceback.extract_tb(e.__traceback__)
        site = [f for f in tb if "/sigma/" in f.filename]
        out["site"] = f"{site[-1].filename.split('/sigma/')[-1]}:{site[-1].name}" if site else "?"
    try:
        obj = load(case["kind"], case["doc"], True)
        errs = list(obj.errors)
        out["collect"] = "ok"
        out["nerr"] = len(errs)
        if errs:
            out["first"] = f"sigma:{type(errs[0]).__name__}" if hasattr(errs[0], "source") or True else "?"
            out["first_msg"] = str(errs[0])[:200]
    except Exception as e:
        out["collect"] = outcome_of_exception(e)
        out["collect_msg"] = str(e)[:200]
        import traceback
        tb = traceback.extract_tb(e.__traceback__)
        site = [f for f in tb if "/sigma/" in f.filename]
        out["csite"] = f"{site[-1].filename.split('/sigma/')[-1]}:{site[-1].name}" if site else "?"
    out["outcome"] = "ok"
    return out


def make_request(case, impl, gen):
    return {"op": "ping"}


def judge(case, impl, reply):
    key = (case["kind"], repr(case["doc"]))
    nt = case["mut"] != "base"
    tags = [f"kind:{case['kind']}", f"strict:{impl['strict'].split(':')[0]}", f"collect:{impl['collect'].split(':')[0]}", f"mut:{case['mut'].split(':')[0]}"]
    doc_s = repr(case["doc"])[:300]
    if impl["strict"].startswith("other:"):
        fid = finding_for(impl["site"], impl["strict"])
        return Verdict("violation", f"strict loading of a {case['kind']} raised non-Sigma {impl['strict']} at {impl['site']}: {impl['strict_msg']} :: {case['mut']} :: {doc_s}",
                       nt, key, finding=fid, tags=tuple(tags + [f"site:{impl['site']}"]))
    if impl["collect"] != "ok":
        fid = finding_for(impl.get("csite", "?"), impl["collect"])
        return Verdict("violation", f"collecting mode raised {impl['collect']} at {impl.get('csite')}: {impl.get('collect_msg')} :: {case['mut']} :: {doc_s}",
                       nt, key, finding=fid, tags=tuple(tags + [f"site:{impl.get('csite')}"]))
    strict_fails = impl["strict"] != "ok"
    if strict_fails != (impl["nerr"] > 0):
        return Verdict("violation", f"{case['kind']}: strict loading {'raises ' + impl['strict'] if strict_fails else 'succeeds'} but collecting mode has {impl['nerr']} errors :: {case['mut']} :: {doc_s}",
                       nt, key, tags=tuple(tags))
    import re as _re
    norm = lambda m: _re.sub(r"0x[0-9a-f]+", "0x", m or "")     # object addresses in messages are C20's subject
    if strict_fails and (impl["first"] != impl["strict"] or norm(impl["first_msg"]) != norm(impl["strict_msg"])):
        return Verdict("violation", f"{case['kind']}: strict raises {impl['strict']} ({impl['strict_msg']!r}) but the first collected error is {impl['first']} ({impl['first_msg']!r}) :: {case['mut']} :: {doc_s}",
                       nt, key, tags=tuple(tags))
    return Verdict("ok", "", nt, key, tags=tuple(tags))


KNOWN_SITES = {("correlations.py:__post_init__", "SigmaCorrelationRuleError"): "D8i",
               ("correlations.py:__post_init__", "SigmaCorrelationConditionError"): "D8i"}


def finding_for(site, outcome):
    return KNOWN_SITES.get((site, outcome.split(":")[-1]))
