"""Driver script of the C20 schedule sweep.  Copied next to a corpus file and run in FRESH interpreters:

    PYTHONHASHSEED=<h> PYTHONPATH=<repo> python c20_driver.py <corpus.json> <random seed> <out.jsonl>

For every corpus item it prints one JSON line with everything the property observes: queries (in order),
finalised output, error records (class + text), validation issues (in order), tracking state.  The script
itself must not introduce any order of its own: set-valued *state* is printed sorted (it is compared as a
set), everything else in the order the library produced it."""
import copy, functools, json, operator, random, sys


def err(e):
    return [type(e).__name__, str(e)]


def load_pipeline(pipes):
    from sigma.processing.pipeline import ProcessingPipeline
    ps = [ProcessingPipeline.from_dict(copy.deepcopy(p)) for p in pipes]
    if not ps:
        return None
    return functools.reduce(operator.add, ps)


def tracking(pipeline):
    fm = pipeline.field_mappings
    return {"keys": [k for k in fm.keys()], "map": [[k, sorted(v, key=lambda x: (x is None, x or ""))] for k, v in fm.items()],
            "rev": sorted(([k, sorted(v, key=lambda x: (x is None, x or ""))] for k, v in fm.target_fields.items()),
                          key=lambda kv: (kv[0] is None, kv[0] or ""))}


def item_convert(it):
    from sigma.collection import SigmaCollection
    from sigma.backends.test import TextQueryTestBackend
    out = {}
    for fmt in ("default", "str"):
        o = {}
        try:
            pipeline = load_pipeline(it.get("pipelines", []))
        except Exception as e:
            out[fmt] = {"pipeline_error": err(e)}
            continue
        try:
            coll = SigmaCollection.from_dicts(copy.deepcopy(it["docs"]), collect_errors=it.get("collect", True))
        except Exception as e:
            out[fmt] = {"load_error": err(e)}
            continue
        o["load_errors"] = [err(e) for e in coll.errors]
        backend = TextQueryTestBackend(processing_pipeline=pipeline, collect_errors=it.get("collect", True))
        try:
            res = backend.convert(coll, None if fmt == "default" else fmt)
            o["output"] = res if isinstance(res, (str, list)) else repr(res)
        except Exception as e:
            o["convert_error"] = err(e)
        o["errors"] = [[getattr(r, "title", None), err(e)] for r, e in backend.errors]
        if fmt == "default":
            per_rule = []
            for r in coll.rules:
                try:
                    per_rule.append({"title": r.title, "queries": [str(q) for q in r.get_conversion_result()]})
                except Exception as e:
                    per_rule.append({"title": r.title, "error": err(e)})
            o["per_rule"] = per_rule
            try:
                o["tracking"] = tracking(backend.last_processing_pipeline)
            except Exception as e:
                o["tracking"] = err(e)
            # note only (not compared as a violation): auto-generated identifiers of processing items
            try:
                o["note_applied_ids"] = sorted(backend.last_processing_pipeline.applied_ids)
            except Exception:
                o["note_applied_ids"] = None
        out[fmt] = o
    return out


def item_load(it):
    """one (possibly malformed) document, strict and collecting"""
    from sigma.rule import SigmaRule
    from sigma.correlations import SigmaCorrelationRule
    from sigma.filters import SigmaFilter
    from sigma.processing.pipeline import ProcessingPipeline
    from sigma.collection import SigmaCollection
    cls = {"rule": SigmaRule, "correlation": SigmaCorrelationRule, "filter": SigmaFilter}
    out = {}
    kind = it["what"]
    for collect in (False, True):
        try:
            if kind == "pipeline":
                ProcessingPipeline.from_dict(copy.deepcopy(it["doc"]))
                out[str(collect)] = {"ok": True}
            elif kind == "collection":
                c = SigmaCollection.from_dicts(copy.deepcopy(it["doc"]), collect_errors=collect)
                out[str(collect)] = {"ok": True, "errors": [err(e) for e in c.errors]}
            else:
                o = cls[kind].from_dict(copy.deepcopy(it["doc"]), collect_errors=collect)
                out[str(collect)] = {"ok": True, "errors": [err(e) for e in o.errors]}
        except Exception as e:
            out[str(collect)] = {"raised": err(e)}
    return out


def validator_pool():
    import importlib, inspect, pkgutil
    import sigma.validators.core as c
    from sigma.validators.base import SigmaRuleValidator
    vs = {}
    for m in pkgutil.iter_modules(c.__path__):
        mod = importlib.import_module("sigma.validators.core." + m.name)
        for n, o in inspect.getmembers(mod, inspect.isclass):
            if issubclass(o, SigmaRuleValidator) and o.__module__ == mod.__name__ and not inspect.isabstract(o) and not n.endswith("Base"):
                vs[n] = o
    for bad in ("ATTACKTagValidator", "D3FENDTagValidator"):
        vs.pop(bad, None)
    return vs


def issue_record(i):
    import dataclasses
    extra = [[f.name, str(getattr(i, f.name))] for f in dataclasses.fields(i) if f.name not in ("rules", "severity", "description")]
    return [type(i).__name__, [r.title for r in i.rules], extra]


def item_validate(it):
    from sigma.validation import SigmaValidator
    from sigma.validators.core import validator_classname_to_identifier
    from sigma.collection import SigmaCollection
    pool = validator_pool()
    try:
        if "config" in it:
            by_id = {validator_classname_to_identifier(n): c for n, c in pool.items()}
            v = SigmaValidator.from_dict(copy.deepcopy(it["config"]), by_id)
        else:
            v = SigmaValidator([pool[n] for n in it["validators"]])
    except Exception as e:
        return {"config_error": err(e)}
    try:
        coll = SigmaCollection.from_dicts(copy.deepcopy(it["docs"]), collect_errors=True)
        issues = v.validate_rules(iter(coll.rules))
        return {"validators": [type(x).__name__ for x in v.validators], "issues": [issue_record(i) for i in issues]}
    except Exception as e:
        return {"validate_error": err(e)}


def item_track(it):
    from sigma.processing.tracking import FieldMappingTracking

    def run(steps):
        t = FieldMappingTracking()
        for st in steps:
            if "add" in st:
                t.add_mapping(st["add"]["src"], list(st["add"]["tgt"]))
            else:
                o = FieldMappingTracking()
                for op in st["merge"]:
                    o.add_mapping(op["src"], list(op["tgt"]))
                t.merge(o)
        return t
    try:
        t = run(it["steps"])
        ks = lambda x: (x is None, x or "")
        return {"fwd": [[k, sorted(v, key=ks)] for k, v in t.items()],
                "rev": sorted(([k, sorted(v, key=ks)] for k, v in t.target_fields.items() ), key=lambda kv: ks(kv[0]))}
    except Exception as e:
        return {"error": err(e)}


def item_regex(it):
    """regular expression values with flag sets, through the backend and directly"""
    from sigma.types import SigmaRegularExpression, SigmaRegularExpressionFlag
    try:
        r = SigmaRegularExpression(it["regex"])
        for f in it["flags"]:
            r.add_flag(SigmaRegularExpressionFlag[f])
        return {"escaped": r.escape(tuple(it.get("escaped", ())), flag_prefix=True)}
    except Exception as e:
        return {"error": err(e)}


KINDS = {"convert": item_convert, "load": item_load, "validate": item_validate, "track": item_track, "regex": item_regex}


def main():
    corpus = json.load(open(sys.argv[1]))
    random.seed(int(sys.argv[2]))
    with open(sys.argv[3], "w") as out:
        for i, it in enumerate(corpus):
            try:
                o = KINDS[it["kind"]](it)
            except Exception as e:          # the script itself must not die on one item
                o = {"driver_exception": err(e)}
            out.write(json.dumps({"i": i, "out": o}, sort_keys=True, default=repr) + "\n")


if __name__ == "__main__":
    main()
