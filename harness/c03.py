"""C03 — value modifiers produce exactly the values the specification defines.

Implementation observable: SigmaDetectionItem.from_mapping(key, value) -> (values, value linking, negated)
in a canonical JSON form, or the error class.  Oracle: the Lean specification `Mods.applyChain`."""
from __future__ import annotations
import itertools, random, re
from .common import Verdict, cps, uncps, outcome_of_exception

ID = "C03"
GEN = ["Mods", "B64"]
RULE = ("values = strings up to length 4 over {a, b, -, /, *, ?, \\\\, %, ä, €, space, _, 1} (exhaustive for length <= 2, "
        "sampled beyond), ints, floats, bools, null, single and lists; chains = every chain of length <= 2 over the full "
        "modifier table x a value sample, chains of length 3..4 sampled (admissible and inadmissible); distinct = distinct "
        "(key, value); non-trivial = chain length >= 2 or a value with a special character"
        "; plus every string modifier next to `expand` in both orders on placeholder values")
RULE += "; round 4: `re|expand` judged (the pattern's text after the placeholder scan, Spec.Mods.expandRe): patterns with escaped backslashes, wildcard characters, escaped percent signs"
RULE += '; round 5: integers beyond 2**53 (exact), integral floats'
RULE += '; round 6: floats next to an integer (3.0000004, 22.9999999, 1e-7)'
ASSUMPTIONS = [
    "Python re decides validity of regular expressions and the word-character class \\w (passed to the specification per case)",
    "Python ipaddress decides validity of CIDR text",
    "numbers are opaque: compared by their normalised decimal rendering",
]
ALPHA = ["a", "b", "-", "/", "*", "?", "\\", "%", "ä", "€", " ", "_", "1"]
SPECIALS = set("-/*?\\%ä€ ")


def all_mods():
    from sigma.modifiers import modifier_mapping
    return sorted(modifier_mapping)


def gen_cases(tier, seed, gen, effort):
    rnd = random.Random(seed * 7727 + 3)
    thorough = tier == "thorough"
    mods = [r["id"] for r in (gen.get("Mods") or {}).get("table", [])] or all_mods()
    strs = [""] + ALPHA + ["".join(t) for t in itertools.product(ALPHA, repeat=2)]
    curated = ["-a", "/a", "a-b", "a -b", "-a -b", "x/-y", "-ä", "-€", "€-a", "*-a", "a*-b/c", "%x%", "\\%x%", "a%b%c%d%", "%%", "%a", "a%b",
               "%a\\%", "\\\\%a%", "10.0.0.0/8", "2001:db8::/32", "10.0.0.1/8", "a.*b", "^a", "a$", ".*a.*", "(", "abc", "a\\*b", "*a*", "?a", "a*",
               "-a/b -c", "--a", "a--b", "-1", "/_x"]
    strs += curated
    for _ in range((200 if not thorough else 3000) * effort):
        strs.append("".join(rnd.choice(ALPHA) for _ in range(rnd.randint(3, 6))))
    others = [0, 1, -5, 3.5, 2.0, True, False, None, 10 ** 20, 2 ** 53 + 1, -(2 ** 63) - 1, 2.0 ** 53, 1e22,
              3.0000004, 22.9999999, 1e-7, -0.0, 59.99999999]      # floats next to an integer are no integers
    cases = []

    def add(chain, val, field="f"):
        key = (field or "") + "".join("|" + m for m in chain)
        cases.append({"key": key, "value": val})
    sample = curated + ["", "a", "*", "\\", "ä-a", "a b"]
    for m in mods:
        for v in strs:
            add([m], v)
        for v in others + [["a", "b"], ["-a", 1], [], [None], ["x*", "*y"]]:
            add([m], v)
        add([m], "a", field="")
    for m1 in mods:
        for m2 in mods:
            vs = rnd.sample(sample, 6 if not thorough else 16) + rnd.sample(others, 2)
            for v in vs:
                add([m1, m2], v)
    for _ in range((3000 if not thorough else 40000) * effort):
        n = rnd.choice([3, 3, 4])
        chain = [rnd.choice(mods) for _ in range(n)]
        if rnd.random() < 0.6:   # bias towards admissible string chains
            pool = ["contains", "startswith", "endswith", "all", "cased", "windash", "base64", "base64offset", "wide", "utf16be", "expand", "neq"]
            chain = [rnd.choice(pool) for _ in range(n)]
        v = rnd.choice(strs) if rnd.random() < 0.8 else rnd.choice(others)
        if rnd.random() < 0.2:
            v = [v, rnd.choice(strs)]
        add(chain, v)
    if rnd.random() < 2:
        add(["nosuchmod"], "a"); add(["contains", "nosuchmod"], "a")
    # placeholders next to every other string modifier, in both orders (a later modifier must keep the placeholders of `expand`)
    for m in ["windash", "contains", "startswith", "endswith", "cased", "all", "base64", "base64offset", "wide", "utf16be", "neq"]:
        for v in ["%tool% -k", "%tool%", "-a %x% /b", "a\\%b%c", "x%p%", ["%p%", "-q"]]:
            add(["expand", m], v); add([m, "expand"], v)
            add(["expand", m, "contains"], v)
    # placeholders inside regular expressions (both orders do not exist: `re` must come first); patterns with escaped backslashes,
    # wildcard characters, escaped percent signs
    for v in ["foo\\\\bar%x%", "^%admin%@corp$", "C:\\\\Users\\\\%u%\\\\.*", "a\\%b%c", "a*%x%?b", "x\\.y", "\\\\\\\\srv\\\\share", "%a% %b%", "a%b", "[%]%x%", "\\d+%n%"]:
        add(["re", "expand"], v); add(["re", "i", "expand"], v); add(["re", "expand", "i"], v); add(["re"], v)
    return cases, True


def canon(v):
    from sigma import types as t
    if isinstance(v, t.SigmaExpansion):
        return {"t": "exp", "vs": [canon(x) for x in v.values]}
    if isinstance(v, t.SigmaString):
        from .c05 import parts_json
        return {"t": "str", "cased": isinstance(v, t.SigmaCasedString), "s": parts_json(v)}
    if isinstance(v, t.SigmaTimestampPart):
        return {"t": "ts", "unit": cps(v.timestamp_part.name.lower()), "n": cps(str(v.number))}
    if isinstance(v, t.SigmaNumber):
        return {"t": "num", "n": cps(str(v.number))}
    if isinstance(v, t.SigmaBool):
        return {"t": "bool", "b": v.boolean}
    if isinstance(v, t.SigmaNull):
        return {"t": "null"}
    if isinstance(v, t.SigmaRegularExpression):
        F = t.SigmaRegularExpressionFlag
        return {"t": "re", "src": cps(str(v.regexp)), "i": F.IGNORECASE in v.flags, "m": F.MULTILINE in v.flags, "s": F.DOTALL in v.flags}
    if isinstance(v, t.SigmaCIDRExpression):
        return {"t": "cidr", "text": cps(v.cidr)}
    if isinstance(v, t.SigmaCompareExpression):
        return {"t": "cmp", "op": cps(v.op.name.lower()), "n": cps(str(v.number.number))}
    if isinstance(v, t.SigmaFieldReference):
        return {"t": "ref", "f": cps(v.field), "sw": bool(v.starts_with), "ew": bool(v.ends_with)}
    if isinstance(v, t.SigmaExists):
        return {"t": "exists", "b": bool(v.exists)}
    return {"t": "unknown:" + type(v).__name__}


def run_impl(case):
    from sigma.rule.detection import SigmaDetectionItem
    from sigma.conditions import ConditionAND
    try:
        it = SigmaDetectionItem.from_mapping(case["key"], case["value"])
        return {"outcome": "ok", "vals": [canon(v) for v in it.value], "linkAnd": it.value_linking is ConditionAND,
                "negated": bool(it.negated)}
    except Exception as e:
        return {"outcome": outcome_of_exception(e), "msg": str(e)[:120]}


def plain(v):
    if v is None or isinstance(v, bool):
        return v
    if isinstance(v, (int, float)):
        f = float(v)
        try:
            # an integral number is its exact integer (never the rounding of its float), anything else the float
            r = str(v) if isinstance(v, int) else (str(int(v)) if f.is_integer() else str(f))
        except (OverflowError, ValueError):
            r = str(v)
        return {"num": cps(r)}
    return {"str": cps(v)}


def make_request(case, impl, gen):
    key = case["key"]
    field, *mods = key.split("|")
    vals = case["value"] if isinstance(case["value"], list) else [case["value"]]
    text = "".join(v for v in vals if isinstance(v, str))
    wc = sorted({c for c in text if ord(c) > 127 and re.match(r"\w", c)})
    r = {"op": "mod.apply", "hasField": field != "", "mods": mods, "vals": [plain(v) for v in vals], "wordChars": cps("".join(wc))}
    g = gen.get("B64")
    if g:
        r["tables"] = {"starts": g["starts"], "cuts": g["cuts"]}
    return r


def _excusable(case, spec_ok):
    """spec says value, implementation says Sigma error: excusable when validity is decided by an assumed component"""
    vals = case["value"] if isinstance(case["value"], list) else [case["value"]]
    mods = case["key"].split("|")[1:]
    if "re" in mods:
        for v in vals:
            if isinstance(v, str):
                try:
                    re.compile(v)
                except re.error:
                    return "invalid-regex"
                # modifiers after re may build an invalid expression too (e.g. contains around an anchored one): accept
        return "regex-validity" if any(m in mods for m in ("contains", "startswith", "endswith")) else None
    if "expand" in mods and "re" in mods:
        return "regex-validity"          # the pattern is compiled again after the scan
    if "cidr" in mods:
        import ipaddress
        for v in vals:
            try:
                ipaddress.ip_network(str(v))
            except ValueError:
                return "invalid-cidr"
    for v in vals:
        if isinstance(v, (int, float)) and not isinstance(v, bool):
            try:
                if float(v) in (float("inf"), float("-inf")) or float(v) != float(v):
                    return "non-finite"
            except OverflowError:
                return "non-finite"
    return None


def judge(case, impl, reply):
    io = impl["outcome"]
    mods = case["key"].split("|")[1:]
    key = (case["key"], case["value"])
    sval = str(case["value"])
    nt = len(mods) >= 2 or any(c in SPECIALS for c in sval)
    spec_ok = "ok" in reply
    tags = (f"chainlen:{len(mods)}", f"impl:{io.split(':')[0]}", f"spec:{'ok' if spec_ok else reply.get('err')}",
            f"vtype:{type(case['value']).__name__}")
    if io.startswith("other:"):
        return Verdict("violation", f"{case['key']!r}: {case['value']!r} -> non-Sigma exception {io}: {impl.get('msg')}", nt, key, tags=tags)
    if spec_ok and io == "ok":
        want = reply["ok"]
        got = {"vals": impl["vals"], "linkAnd": impl["linkAnd"], "negated": impl["negated"]}
        if got != want:
            fid = "D18" if "utf16" in mods else None
            return Verdict("violation", f"{case['key']!r}: {case['value']!r} -> {brief(got)} but the specification defines {brief(want)}", nt, key, finding=None, tags=tags)
        return Verdict("ok", "", nt, key, tags=tags)
    if spec_ok and io.startswith("sigma:"):
        ex = _excusable(case, spec_ok)
        if ex:
            return Verdict("ok", "", nt, key, tags=tags + (f"excused:{ex}",))
        return Verdict("violation", f"{case['key']!r}: {case['value']!r} is an admissible chain (specification gives {brief(reply['ok'])}) but is rejected: {io} {impl.get('msg')}", nt, key, tags=tags)
    if not spec_ok and io == "ok":
        return Verdict("violation", f"{case['key']!r}: {case['value']!r} is not admissible ({reply.get('err')} error at {uncps(reply.get('mod', []))!r}) but produced {brief(impl)}", nt, key, tags=tags)
    return Verdict("ok", "", nt, key, tags=tags)


def brief(o):
    def b(v):
        t = v.get("t")
        if t == "str":
            from .c05 import show
            return ("cased:" if v["cased"] else "") + repr(show(v["s"]))
        if t == "exp":
            return "exp[" + ", ".join(b(x) for x in v["vs"]) + "]"
        if t in ("num",):
            return uncps(v["n"])
        if t == "re":
            return "re/" + uncps(v["src"]) + "/" + "".join(f for f in "ims" if v[f])
        return str({k: (uncps(x) if isinstance(x, list) else x) for k, x in v.items()})
    return f"vals=[{', '.join(b(v) for v in o['vals'])}] and={o['linkAnd']} neg={o['negated']}"


def shrink(case, v, evaluate):
    cur, curv = case, v
    improved = True
    while improved:
        improved = False
        cands = []
        val = cur["value"]
        if isinstance(val, str):
            cands += [dict(cur, value=val[:i] + val[i + 1:]) for i in range(len(val))]
        if isinstance(val, list) and len(val) > 1:
            cands += [dict(cur, value=val[:i] + val[i + 1:]) for i in range(len(val))]
        f, *mods = cur["key"].split("|")
        if len(mods) > 1:
            cands += [dict(cur, key="|".join([f] + mods[:i] + mods[i + 1:])) for i in range(len(mods))]
        for c, i, r, vv in evaluate(cands):
            if vv.status == "violation" and vv.finding == curv.finding:
                cur, curv, improved = c, vv, True
                break
    return cur, curv
