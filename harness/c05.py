"""C05 — string values keep their exact characters and wildcards in every rendering.

Case kinds (all against the real code):
  str   : SigmaString(src): parts, plain form and its re-parse; convert_value_str of a TextQueryBackend
          subclass for each escaping configuration.  Deciding: the emitted literal, read by the target
          language's rules (Lean `decode`/`decodeQuoted`), equals the source's characters and wildcard
          positions minus filtered ones (a literal emitted without quotes is read as a bare word: the language's quote
          character, unescaped, is a delimiter there too); the plain form re-parses to the identical value.  The same round trip as the
          library itself performs it: the value sent through a replace_string item (both modes: on the plain form, which
          is written and parsed again, and part by part) whose expression matches nothing must come back identical, and
          one that rewrites a plain letter must change that letter only (characters and wildcard positions otherwise kept).
  regex : SigmaString(src).to_regex(): Python's own `re.fullmatch` on every subject up to a length bound
          over the pattern's alphabet must agree with the glob meaning of the pattern (Lean `glob`).
  slice : s[:-1], s[1:], s[1:-1], startswith/endswith/contains_special vs the model (used by C01).
  field : escape_and_quote_field under field escaping configurations, read back by the strict reader `decodeField`
          (a quoted name ends at the first unescaped quote: text after it = the name was terminated early).  A name that
          does not read back is a violation, except: escape character outside the escape class (finding D7f), or the
          configuration itself says not to escape the quote (unjudged:config-does-not-escape-quote)."""
from __future__ import annotations
import itertools, random, re
from .common import Verdict, cps, uncps, outcome_of_exception

ID = "C05"
GEN = ["SStr"]
RULE = ("source strings = all strings up to a length bound over {\\\\, *, ?, \", ', :, ., (, a, ä, &, %} plus seeded random "
        "longer ones; x escaping configurations (escape char, single- and multi-character wildcard tokens, quote, extra "
        "escaped, filter; quoted and unquoted); regex form compared with Python re.fullmatch on all subjects <= 4 over the "
        "pattern's alphabet; field names over {a, space, \\\\, ', \", .}; distinct = distinct (kind, source); "
        "non-trivial = contains a backslash, wildcard, quote or filtered character"
        "; escaping configurations incl. quote among the filtered characters and conditional quoting; values obtained by stripping wildcards; regex literals with and without a string layer; field configurations incl. a derived backend class"
        "; every source string through replace_string items (plain-form mode and part-wise mode; an expression matching nothing, a single-letter rewrite): the plain form written and parsed again by the library"
        "; conditional quoting whose bare-word class contains the quote character (quote only values with white space; str_quote_pattern negated and not), the unquoted literal read by the bare-word reader for which the quote is still a delimiter (Lean decodeBare)"
        "; field configurations that escape the quote character twice over (escape class containing the quote + field_escape_quote) incl. a non-word class with conditional field quoting (field_quote_pattern)")
ASSUMPTIONS = [
    "the Sigma escaping rules (backslash escapes a following backslash/wildcard, is literal otherwise) are the specification of the source reading",
    "target-language reading of a literal = greedy token reading (escape, multi-token, single-token, plain); Python's re is the target for the regex form",
    "regex subjects contain no line terminators",
    "field_escape_pattern is modelled as a character class; str/field quote patterns: the quoting decision is an input of the model (taken from decide_string_quoting for values, from the configured pattern applied to the name for fields); an unquoted value must consist of characters of the configuration's bare-word class",
    "target-language reading of a value emitted without quotes by a backend that has a string quote: token reading as above, and an unescaped quote string at a token boundary is a string delimiter (malformed bare word)",
    "target-language reading of a quoted field name: the escape string makes the next character literal, the first unescaped quote string ends the name (text after it = terminated early)",
    "replace_string is the library's own 'plain form, parsed again' path (sigma/processing/transformations/values.py); its regular expression engine is Python's re",
]
ALPHA = ["\\", "*", "?", '"', "'", ":", ".", "(", "a", "ä", "&", "%"]

# escaping configurations: esc, multi, single, add_escaped (as the backend attribute, quote added by backend), filter, quote
CONFIGS = [
    {"name": "std-dq", "esc": "\\", "multi": "*", "single": "?", "add": "\\", "filter": "", "quote": '"'},
    {"name": "std-sq", "esc": "\\", "multi": "*", "single": "?", "add": "\\:", "filter": "", "quote": "'"},
    {"name": "sql-like", "esc": "\\", "multi": "%", "single": "_", "add": "\\", "filter": "", "quote": "'"},
    {"name": "multichar", "esc": "\\", "multi": ".*", "single": ".", "add": "\\()", "filter": "", "quote": '"'},
    {"name": "filter", "esc": "\\", "multi": "*", "single": "?", "add": "\\", "filter": "&:", "quote": '"'},
    {"name": "noquote", "esc": "\\", "multi": "*", "single": "?", "add": "\\ \"", "filter": "", "quote": ""},
    {"name": "esc-caret", "esc": "^", "multi": "*", "single": "?", "add": "^", "filter": "", "quote": '"'},
    {"name": "esc-caret-bs", "esc": "^", "multi": "*", "single": "?", "add": "^\\", "filter": "(", "quote": "'"},
    {"name": "testbackend", "esc": "\\", "multi": "*", "single": "?", "add": ":", "filter": "&", "quote": '"'},       # esc not escaped (D7)
    {"name": "no-esc-in-add", "esc": "\\", "multi": "%", "single": "_", "add": "", "filter": "", "quote": "'"},     # D7
    {"name": "nosingle", "esc": "\\", "multi": "*", "single": None, "add": "\\", "filter": "", "quote": '"'},
    {"name": "nomulti", "esc": "\\", "multi": None, "single": "?", "add": "\\", "filter": "", "quote": '"'},
    # the quote character is also filtered (a filtered character is dropped entirely: no escape character may be left behind)
    {"name": "filter-quote", "esc": "\\", "multi": "*", "single": "?", "add": "\\", "filter": '"&', "quote": '"'},
    # conditional quoting: quote unless the plain form is a bare token (str_quote_pattern + negation)
    {"name": "cond-quote", "esc": "\\", "multi": "*", "single": "?", "add": "\\", "filter": "", "quote": '"',
     "qpat": ("^[A-Za-z0-9_.*?\\\\]*$", True), "barecls": "[A-Za-z0-9_.*?\\\\]"},
    # conditional quoting whose bare-word class CONTAINS the quote character: "quote only values with white space"
    # (str_quote_pattern that says when to quote, negation off) and "quote unless free of white space" (negation on);
    # a value with the quote character but no white space is emitted as a bare word, where the quote is still a metacharacter
    {"name": "cond-ws", "esc": "\\", "multi": "*", "single": "?", "add": "\\", "filter": "", "quote": '"',
     "qpat": ("^.*\\s", False), "barecls": "\\S"},
    {"name": "cond-ws-sq", "esc": "\\", "multi": "%", "single": "_", "add": "\\", "filter": "&", "quote": "'",
     "qpat": ("^\\S*$", True), "barecls": "\\S"},
]
CFG_BY_NAME = {c["name"]: c for c in CONFIGS}
FIELD_CFGS = [
    {"name": "q-esc", "escape": "\\", "chars": " \\", "escapeQuote": True, "quote": "'", "always": True},
    {"name": "noquote-esc", "escape": "\\", "chars": " \\.", "escapeQuote": True, "quote": None, "always": False},
    {"name": "q-noesc-of-esc", "escape": "\\", "chars": " ", "escapeQuote": True, "quote": "'", "always": True},   # escape char not covered
    {"name": "dq", "escape": "\\", "chars": "\\\"", "escapeQuote": False, "quote": '"', "always": True},
    # neither field_escape_quote nor the escape class covers the quote: a name containing it is terminated early BY CONFIGURATION (unjudged)
    {"name": "dq-noesc", "escape": "\\", "chars": "\\", "escapeQuote": False, "quote": '"', "always": True},
    {"name": "plain", "escape": None, "chars": "", "escapeQuote": True, "quote": None, "always": False},
    # a backend class derived from the first one with another quote character, used after its parent in the same process
    {"name": "dq-derived", "escape": "\\", "chars": " \\", "escapeQuote": True, "quote": '"', "always": True, "parent": "q-esc"},
    # the quote character is escaped by BOTH mechanisms: it is in the escape class and field_escape_quote is set
    # (a pattern like [\s'] or \W with that quote); exactly one escape string must stand in front of it
    {"name": "q-in-class", "escape": "\\", "chars": " \\'", "escapeQuote": True, "quote": "'", "always": True},
    # the same with the class of all non-word characters and conditional quoting (field_quote_pattern ^\w+$, negated:
    # a name is quoted unless it consists of word characters)
    {"name": "dq-nonword-cond", "escape": "\\", "chars": " \\'\".", "escapeQuote": True, "quote": '"', "always": False,
     "qpat": ("^\\w+$", True)},
]
FIELD_ALPHA = ["a", " ", "\\", "'", '"', "."]
# replace_string items every source string is sent through: (name, regex, replacement, skip_special); "id" = matches nothing
REPLACERS = [("id-plain", "ZZZZ", "Y", False), ("id-parts", "ZZZZ", "Y", True), ("a2z-plain", "a", "z", False), ("a2z-parts", "a", "z", True)]


def gen_cases(tier, seed, gen, effort):
    rnd = random.Random(seed * 31337 + 5)
    thorough = tier == "thorough"
    n_full = 3 if not thorough else 4
    srcs = [""]
    for n in range(1, n_full + 1):
        srcs += ["".join(t) for t in itertools.product(ALPHA, repeat=n)]
    small = ["\\", "*", "?", '"', "a", "."]
    for n in range(n_full + 1, (5 if not thorough else 6) + 1 + (1 if effort > 1 else 0)):
        srcs += ["".join(t) for t in itertools.product(small, repeat=n)]
    for _ in range((500 if not thorough else 10000) * effort):
        srcs.append("".join(rnd.choice(ALPHA + ["b", " ", "/", "[", "$", "^", "|", "+", "{", "_"]) for _ in range(rnd.randint(6, 20))))
    cases = [{"kind": "str", "src": s} for s in srcs]
    # regex: subjects enumerated per pattern
    rsrcs = [s for s in srcs if len(s) <= (4 if not thorough else 5)]
    rsrcs += [s for s in srcs if len(s) > 6][: (200 if not thorough else 2000)]
    for s in rsrcs:
        cases.append({"kind": "regex", "src": s, "custom": rnd.choice(["", "", "/", " ", "-\""])})
    # the regex form as the backend embeds it ({regex} in eq / case-sensitive / unbound-value templates, add_escaped_re)
    for s in rsrcs:
        if "/" in s or len(s) <= 2 or rnd.random() < 0.15:
            cases.append({"kind": "regex", "src": s, "custom": "/", "path": rnd.choice(["eq", "cased", "kw"])})
    for s in ["a/b", "/", "http://x/*", "\\/", "a/*/b?", "*/", "/?", "a\\/b", "\\\\/", "x\\", "\\/\\/"]:
        for path in ("eq", "cased", "kw", "eq2", "cased2", "kw2"):
            cases.append({"kind": "regex", "src": s, "custom": "/", "path": path})
    for s in rsrcs:
        if ("\\" in s or "/" in s) and rnd.random() < 0.3:
            cases.append({"kind": "regex", "src": s, "custom": "/", "path": rnd.choice(["eq2", "cased2", "kw2"])})
    for s in srcs:
        if len(s) <= 4 or rnd.random() < 0.05:
            cases.append({"kind": "slice", "src": s})
    fnames = [""]
    for n in range(1, 5 if not thorough else 6):
        fnames += ["".join(t) for t in itertools.product(FIELD_ALPHA, repeat=n)]
    for f in fnames:
        if f:
            cases.append({"kind": "field", "name": f})
    return cases, True


def parts_json(s):
    from sigma.types import SpecialChars, Placeholder
    out = []
    for p in s.s:
        if isinstance(p, str):
            out += cps(p)
        elif p == SpecialChars.WILDCARD_MULTI:
            out.append("*")
        elif p == SpecialChars.WILDCARD_SINGLE:
            out.append("?")
        elif isinstance(p, Placeholder):
            out.append({"ph": cps(p.name)})
    return out


_backends = {}


def backend_for(cfg):
    from sigma.backends.test import TextQueryTestBackend
    from sigma.processing.pipeline import ProcessingPipeline
    if cfg["name"] not in _backends:
        attrs = {"str_quote": cfg["quote"], "escape_char": cfg["esc"], "wildcard_multi": cfg["multi"],
                 "wildcard_single": cfg["single"], "add_escaped": cfg["add"], "filter_chars": cfg["filter"],
                 "str_quote_pattern": re.compile(cfg["qpat"][0]) if cfg.get("qpat") else None,
                 "str_quote_pattern_negation": cfg["qpat"][1] if cfg.get("qpat") else True,
                 "backend_processing_pipeline": ProcessingPipeline()}
        _backends[cfg["name"]] = type("B_" + re.sub(r"\W", "_", cfg["name"]), (TextQueryTestBackend,), attrs)()
    return _backends[cfg["name"]]


def field_backend_for(cfg):
    from sigma.backends.test import TextQueryTestBackend
    from sigma.processing.pipeline import ProcessingPipeline
    key = "f:" + cfg["name"]
    if key not in _backends:
        attrs = {"field_escape": cfg["escape"],
                 "field_escape_pattern": re.compile("[" + re.escape(cfg["chars"]) + "]") if cfg["chars"] else None,
                 "field_escape_quote": cfg["escapeQuote"], "field_quote": cfg["quote"],
                 "field_quote_pattern": re.compile(cfg["qpat"][0]) if cfg.get("qpat") else None,
                 "field_quote_pattern_negation": cfg["qpat"][1] if cfg.get("qpat") else True,
                 "backend_processing_pipeline": ProcessingPipeline()}
        base = TextQueryTestBackend
        if cfg.get("parent"):
            base = type(field_backend_for(next(c for c in FIELD_CFGS if c["name"] == cfg["parent"])))
        _backends[key] = type("F_" + re.sub(r"\W", "_", cfg["name"]), (base,), attrs)()
    return _backends[key]


def field_quoted(cfg, name):
    """does the configuration ask for quotes around this name?  (always / never, or field_quote_pattern on the name, negated or not;
    the conditional configurations escape only characters their pattern does not accept, so the escaped and the original
    name are classified alike)"""
    if cfg.get("qpat") and cfg["quote"] is not None:
        m = bool(re.match(cfg["qpat"][0], name))
        return (not m) if cfg["qpat"][1] else m
    return cfg["always"]


def replacer(name, rx, rep, skip):
    from sigma.processing.transformations import ReplaceStringTransformation
    key = "rs:" + name
    if key not in _backends:
        _backends[key] = ReplaceStringTransformation(regex=rx, replacement=rep, skip_special=skip)
    return _backends[key]


def regex_backend():
    from sigma.backends.test import TextQueryTestBackend
    from sigma.processing.pipeline import ProcessingPipeline
    if "re" not in _backends:
        attrs = {"eq_expression": "{field}~/{regex}/", "startswith_expression": None, "endswith_expression": None, "contains_expression": None,
                 "wildcard_match_expression": None, "case_sensitive_match_expression": "{field}~~/{regex}/",
                 "case_sensitive_startswith_expression": None, "case_sensitive_endswith_expression": None, "case_sensitive_contains_expression": None,
                 "unbound_value_str_expression": "_~/{regex}/", "add_escaped_re": "/", "add_escaped": ":", "re_escape": (), "re_escape_char": "\\", "re_escape_escape_char": False,
                 "convert_or_as_in": False, "convert_and_as_in": False, "backend_processing_pipeline": ProcessingPipeline()}
        _backends["re"] = type("B_regex_templates", (TextQueryTestBackend,), attrs)()
    return _backends["re"]


def regex_backend2():
    """the same templates for a target with a string layer around the regular expression: the backend escapes the delimiter
    itself (re_escape) and doubles every backslash (re_escape_escape_char)"""
    if "re2" not in _backends:
        base = type(regex_backend())
        _backends["re2"] = type("B_regex_string_layer", (base,), {"add_escaped_re": "", "re_escape": ("/",), "re_escape_char": "\\",
                                                                 "re_escape_escape_char": True})()
    return _backends["re2"]


def read_regex_literal2(q, prefix):
    """target reading with a string layer: a doubled backslash is one backslash, backslash-slash is a slash, a bare slash ends the
    literal; the result is the regular expression"""
    if not q.startswith(prefix):
        return None
    i, body = len(prefix), []
    while i < len(q):
        c = q[i]
        if c == "\\" and i + 1 < len(q) and q[i + 1] in "\\/":
            body.append(q[i + 1]); i += 2; continue
        if c == "/":
            return "".join(body), q[i + 1:]
        body.append(c); i += 1
    return "".join(body), None


PATH_PREFIX = {"eq": "f~/", "cased": "f~~/", "kw": "_~/", "eq2": "f~/", "cased2": "f~~/", "kw2": "_~/"}


def read_regex_literal(q, prefix):
    """read `prefix` + a /-delimited regex literal the way a target language does: backslash takes the next character, the first bare '/' ends it"""
    if not q.startswith(prefix):
        return None
    i, body = len(prefix), []
    while i < len(q):
        c = q[i]
        if c == "\\" and i + 1 < len(q):
            body.append(q[i:i + 2]); i += 2; continue
        if c == "/":
            return "".join(body), q[i + 1:]
        body.append(c); i += 1
    return "".join(body), None


def subjects_for(src, maxlen=4):
    alpha = sorted(set(c for c in src if c not in "\n\r")) [:3] + ["z"]
    alpha = list(dict.fromkeys(alpha))
    out = [""]
    for n in range(1, maxlen + 1):
        out += ["".join(t) for t in itertools.product(alpha, repeat=n)]
    return out[:400]


def run_impl(case):
    from sigma.types import SigmaString
    from sigma.conversion.state import ConversionState
    k = case["kind"]
    try:
        if k == "str":
            s = SigmaString(case["src"])
            plain = s.to_plain()
            out = {"outcome": "ok", "parts": parts_json(s), "plain": cps(plain), "reparse": parts_json(SigmaString(plain)), "convs": []}
            # the same value as the converter obtains it: by stripping the wildcards of "*src*", "src*", "*src"
            derived = [("", s)]
            for how, mk in (("mid", lambda: SigmaString("*" + case["src"] + "*")[1:-1]), ("head", lambda: SigmaString(case["src"] + "*")[:-1]),
                            ("tail", lambda: SigmaString("*" + case["src"])[1:])):
                try:
                    d = mk()
                    if parts_json(d) == out["parts"]:      # (slicing re-parses: other shapes are the slice kind's subject)
                        derived.append((how, d))
                except Exception:
                    pass
            for cfg in CONFIGS:
                b = backend_for(cfg)
                for how, v in derived:
                    if how and not (cfg.get("qpat") or cfg["name"] in ("std-dq", "noquote")):
                        continue
                    try:
                        quoted = b.decide_string_quoting(v)
                        out["convs"].append({"cfg": cfg["name"], "how": how, "quoted": quoted, "text": cps(b.convert_value_str(v, ConversionState()))})
                    except Exception as e:
                        out["convs"].append({"cfg": cfg["name"], "how": how, "err": outcome_of_exception(e)})
            out["replaced"] = []
            for name, rx, rep, skip in REPLACERS:
                try:
                    r = replacer(name, rx, rep, skip).apply_value("f", SigmaString(case["src"]))
                    out["replaced"].append({"t": name, "parts": parts_json(r) if isinstance(r, SigmaString) else None, "type": type(r).__name__})
                except Exception as e:
                    out["replaced"].append({"t": name, "err": outcome_of_exception(e), "msg": str(e)[:100]})
            return out
        if k == "regex" and case.get("path"):
            from sigma.rule import SigmaRule
            path = case["path"]
            det = {"eq": {"f": case["src"]}, "cased": {"f|cased": case["src"]}, "kw": [case["src"]]}[path.rstrip("2")]
            rule = SigmaRule.from_dict({"title": "t", "logsource": {"category": "c"}, "detection": {"s": det, "condition": "s"}})
            if path.endswith("2"):
                q = regex_backend2().convert_rule(rule)[0]
                lit = read_regex_literal2(q, PATH_PREFIX[path])
            else:
                q = regex_backend().convert_rule(rule)[0]
                lit = read_regex_literal(q, PATH_PREFIX[path])
            if lit is None:
                return {"outcome": "ok", "other_form": q}
            text, rest = lit
            if rest != "":
                return {"outcome": "ok", "terminated": True, "query": q, "text": cps(text)}
            subs = subjects_for(case["src"])
            rx = re.compile(text)
            return {"outcome": "ok", "text": cps(text), "query": q, "subjects": subs, "matches": [rx.fullmatch(x) is not None for x in subs]}
        if k == "regex":
            s = SigmaString(case["src"])
            r = s.to_regex(case["custom"])
            text = str(r.regexp)
            subs = subjects_for(case["src"])
            rx = re.compile(text)
            return {"outcome": "ok", "text": cps(text), "subjects": subs, "matches": [rx.fullmatch(x) is not None for x in subs]}
        if k == "slice":
            s = SigmaString(case["src"])
            from sigma.types import SpecialChars
            return {"outcome": "ok", "dropLast": parts_json(s[:-1]), "drop1": parts_json(s[1:]), "mid": parts_json(s[1:-1]),
                    "special": s.contains_special(), "startsStar": s.startswith(SpecialChars.WILDCARD_MULTI),
                    "endsStar": s.endswith(SpecialChars.WILDCARD_MULTI)}
        if k == "field":
            outs = []
            for cfg in FIELD_CFGS:
                outs.append(cps(field_backend_for(cfg).escape_and_quote_field(case["name"])))
            return {"outcome": "ok", "outs": outs}
    except Exception as e:
        return {"outcome": outcome_of_exception(e), "msg": str(e)[:100]}


def make_request(case, impl, gen):
    k = case["kind"]
    if impl["outcome"] != "ok":
        return {"op": "ping"}
    if k == "str":
        convs = []
        for r in impl["convs"]:
            cfg = CFG_BY_NAME[r["cfg"]]
            convs.append({"cfg": {"esc": cps(cfg["esc"]) if cfg["esc"] is not None else None,
                                  "multi": cps(cfg["multi"]) if cfg["multi"] is not None else None,
                                  "single": cps(cfg["single"]) if cfg["single"] is not None else None,
                                  "addEscaped": cps(cfg["add"]), "filter": cps(cfg["filter"])},
                          "quote": cps(cfg["quote"]), "quoted": bool(r.get("quoted", False)),
                          "impl": r.get("text")})
        return {"op": "sstr.case", "src": cps(case["src"]), "convs": convs}
    if k == "regex" and ("other_form" in impl or impl.get("terminated")):
        return {"op": "ping"}
    if k == "regex":
        return {"op": "sstr.regex", "src": cps(case["src"]), "custom": cps("" if (case.get("path") or "").endswith("2") else case["custom"]), "impl": impl["text"],
                "subjects": [cps(x) for x in impl["subjects"]]}
    if k == "slice":
        return {"op": "sstr.slice", "src": cps(case["src"])}
    if k == "field":
        # one request per case: the driver op handles one cfg; fold all cfgs into a batch via list
        return {"op": "field.batch", "name": cps(case["name"]),
                "items": [{"cfg": {"escape": cps(c["escape"]) if c["escape"] is not None else None, "escapeChars": cps(c["chars"]),
                                   "escapeQuote": c["escapeQuote"], "quote": cps(c["quote"]) if c["quote"] is not None else None},
                           "quoted": field_quoted(c, case["name"]), "impl": o} for c, o in zip(FIELD_CFGS, impl["outs"])]}


def show(parts):
    return "".join(chr(p) if isinstance(p, int) else ("<" + p + ">" if isinstance(p, str) else "<ph>") for p in (parts or []))


def judge(case, impl, reply):
    k = case["kind"]
    src = case.get("src", case.get("name", ""))
    key = (k, src)
    nt = any(c in src for c in "\\*?\"'&%")
    tags = (f"kind:{k}", f"len:{min(len(src), 7)}", f"impl:{impl['outcome'].split(':')[0]}")
    if impl["outcome"] != "ok":
        if impl["outcome"].startswith("other:") or k in ("str", "slice", "field"):
            return Verdict("violation", f"{k} {src!r}: {impl['outcome']} {impl.get('msg')}", nt, key, tags=tags)
        return Verdict("ok", "", nt, key, tags=tags)
    if k == "str":
        if impl["parts"] != reply["parts"]:
            return Verdict("violation", f"SigmaString({src!r}) parses to {show(impl['parts'])!r}, the Sigma escaping rules give {show(reply['parts'])!r}", nt, key, tags=tags)
        drift = None
        known = None
        if impl["reparse"] != impl["parts"]:
            # the plain form is not injective: class D3 = a literal backslash immediately before a backslash, wildcard character or wildcard
            fid = "D3" if _d3_class(impl["parts"]) else None
            v_ = Verdict("violation", f"plain form of {src!r} is {uncps(impl['plain'])!r} which re-parses to {show(impl['reparse'])!r} instead of {show(impl['parts'])!r}",
                         nt, key, finding=fid, tags=tags + ("plain-lossy",))
            if fid is None:
                return v_
            known = v_            # recorded; the renderings of the same value are still judged below
        for r, d in zip(impl["convs"], reply["convs"]):
            cfg = CFG_BY_NAME[r["cfg"]]
            if r.get("how"):
                cfg = dict(cfg, name=cfg["name"] + " (value obtained by stripping wildcards: " + r["how"] + ")")
            if "err" in r:
                merr = isinstance(d["model"], dict)
                if r["err"].startswith("other:"):
                    return Verdict("violation", f"{src!r} under {cfg['name']}: {r['err']}", nt, key, tags=tags)
                if not merr:
                    return Verdict("violation", f"{src!r} under {cfg['name']}: rejected ({r['err']}) although the configuration can render it", nt, key, tags=tags)
                continue
            if isinstance(d["model"], dict):
                return Verdict("violation", f"{src!r} under {cfg['name']}: rendered as {uncps(r['text'])!r} although the configuration lacks the wildcard ({d['model']['err']})", nt, key, tags=tags)
            if cfg.get("barecls") and not r["quoted"] and any(not re.fullmatch(cfg["barecls"], ch_) for ch_ in uncps(r["text"])):
                return Verdict("violation", (f"{src!r} under {cfg['name']}: emitted without quotes as {uncps(r['text'])!r} although it contains a character "
                                             f"that ends a bare token (quoting is decided by str_quote_pattern)"), nt, key, tags=tags + (f"cfg:{cfg['name']}",))
            if d["implReadOk"] is not True:
                # D7 = the escape character itself is not escaped when the configuration does not list it: only where the value
                # contains that character literally, and only the rendering the model of the code predicts
                esc_literal = cfg["esc"] is not None and ord(cfg["esc"]) in [p_ for p_ in impl["parts"] if isinstance(p_, int)]
                fid = "D7" if (not d["escInSet"] and esc_literal and d["model"] == r["text"]) else None
                v_ = Verdict("violation", (f"{src!r} under {cfg['name']}: emitted {uncps(r['text'])!r}, which the target reads as "
                                           f"{show(d['implRead']) if d['implRead'] is not None else 'malformed/terminated early'!r} instead of {show(d['want'])!r}"
                                           + (f" (emitted without quotes: an unescaped {cfg['quote']} inside a bare word is a string delimiter of the target)"
                                              if (not r["quoted"] and cfg["quote"] and d["implRead"] is None) else "")),
                             nt, key, finding=fid, tags=tags + (f"cfg:{cfg['name']}",))
                if fid is None:
                    return v_                      # an unclassified violation is reported at once
                known = known or v_                # a known finding must not hide a violation under another configuration
                continue
            if d["model"] != r["text"]:
                drift = f"{src!r} under {cfg['name']}: model text {uncps(d['model'])!r} vs impl {uncps(r['text'])!r}"
        # the library's own round trip through the plain form (replace_string): identical value / only the rewritten letter changes
        for r in impl.get("replaced", []):
            name, rx, rep, skip = next(x for x in REPLACERS if x[0] == r["t"])
            want = [ord(rep) if (len(rx) == 1 and p_ == ord(rx)) else p_ for p_ in reply["parts"]]
            what_t = (f"replace_string(regex={rx!r}, replacement={rep!r}{', skip_special=True' if skip else ''}) "
                      + ("(matches nothing in the value)" if len(rx) > 1 else "(rewrites the plain letter only)"))
            if "err" in r:
                return Verdict("violation", f"{src!r} through {what_t}: {r['err']} {r.get('msg')}", nt, key, tags=tags + (f"replace:{name}",))
            if r["parts"] != want:
                # D3 at work: a literal backslash directly before a wildcard is written as '\\*' in the plain form, which is
                # the spelling of a literal star (only the plain-form mode, only this adjacency)
                fid = "D3" if (not skip and _bs_before_wildcard(reply["parts"])) else None
                v_ = Verdict("violation", (f"{src!r} through {what_t} comes back as {show(r['parts']) if r['parts'] is not None else r['type']!r} "
                                           f"instead of {show(want)!r} (<*>, <?> = wildcards)"), nt, key, finding=fid, tags=tags + (f"replace:{name}",))
                if fid is None:
                    return v_
                known = known or v_
            if name == "id-plain" and "replaceId" in reply and r.get("parts") != reply["replaceId"]:
                drift = f"{src!r} through {what_t}: model (Lean replaceIdentity) {show(reply['replaceId'])!r} vs impl {show(r.get('parts'))!r}"
        if known is not None:
            return known
        if impl["plain"] != reply["plain"]:
            drift = f"plain form differs from model for {src!r}"
        return Verdict("drift" if drift else "ok", drift or "", nt, key, tags=tags)
    if k == "regex" and "other_form" in impl:
        return Verdict("ok", "", False, key, tags=tags + ("unjudged:other-query-form",))
    if k == "regex" and impl.get("terminated"):
        return Verdict("violation", (f"{src!r} ({case['path']} template with {{regex}} between '/' delimiters, add_escaped_re='/'): the query {impl['query']!r} "
                                     f"ends its regex literal early: read as /{uncps(impl['text'])}/"), nt, key, tags=tags + (f"path:{case['path']}",))
    if k == "regex":
        if case.get("path"):
            key = (k, src, case["path"]); tags = tags + (f"path:{case['path']}",)
        for x, m, g in zip(impl["subjects"], impl["matches"], reply["glob"]):
            if m != g:
                return Verdict("violation", f"regex form {uncps(impl['text'])!r} of {src!r}: re.fullmatch({x!r}) = {m} but the wildcard pattern {'matches' if g else 'does not match'} it", nt, key, tags=tags)
        if isinstance(reply["model"], dict) or reply["model"] != impl["text"]:
            return Verdict("drift", f"regex text differs from model for {src!r}", nt, key, tags=tags)
        if reply["implFragment"] is not None and any(f is not None and f != m for f, m in zip(reply["implFragment"], impl["matches"])):
            return Verdict("drift", f"Lean regex-fragment reading disagrees with Python re for {uncps(impl['text'])!r}", nt, key, tags=tags)
        return Verdict("ok", "", nt, key, tags=tags)
    if k == "slice":
        # the converter slices only after testing the wildcard at that end; other shapes are not judged
        # (SigmaString("a\\*a")[1:-1] re-parses the substring and turns the literal '*' into a wildcard: observed, outside C05)
        judged = ["special", "startsStar", "endsStar"]
        if reply["endsStar"]: judged.append("dropLast")
        if reply["startsStar"]: judged.append("drop1")
        if reply["startsStar"] and reply["endsStar"] and len(reply["dropLast"]) >= 1: judged.append("mid")
        for f in judged:
            if impl[f] != reply[f]:
                return Verdict("violation", f"SigmaString({src!r}) {f}: implementation {show(impl[f]) if isinstance(impl[f], list) else impl[f]!r} vs character-level slice {show(reply[f]) if isinstance(reply[f], list) else reply[f]!r}", nt, key, tags=tags)
        return Verdict("ok", "", nt, key, tags=tags)
    if k == "field":
        # every configuration is judged; the most severe outcome is reported (a known finding of one configuration
        # must not hide a violation of another one)
        viol = known = unj = drift = None
        for cfg, r, o in zip(FIELD_CFGS, reply["items"], impl["outs"]):
            ctag = f"fcfg:{cfg['name']}"
            if cfg.get("qpat") and field_quoted(cfg, src) != (len(o) >= 2 and o[0] == ord(cfg["quote"]) == o[-1]):
                # the quoting decision itself is not what C05 states: diagnostic only
                drift = drift or Verdict("drift", f"field {src!r} under {cfg['name']}: rendered {uncps(o)!r}, field_quote_pattern asks for "
                                                  f"{'quotes' if field_quoted(cfg, src) else 'no quotes'}", nt, key, tags=tags + (ctag,))
            elif not r["ok"]:
                # strict reading: a quoted name ends at the first unescaped quote (Lean `readQuotedField`)
                read = "nothing (the name is terminated early or malformed)" if r["implRead"] is None else repr(uncps(r["implRead"]))
                what = (f"field {src!r} under {cfg['name']} (field_escape={cfg['escape']!r}, escape class [{cfg['chars']}], field_escape_quote={cfg['escapeQuote']}, "
                        f"field_quote={cfg['quote']!r}): rendered {uncps(o)!r}, which the target reads as {read} instead of {src!r}")
                if not r["escCovered"] and cfg["escape"] and cfg["escape"] in src:
                    known = known or Verdict("violation", what, nt, key, finding="D7f", tags=tags + (ctag,))
                elif not cfg["escapeQuote"] and not r["quoteEscaped"] and r["hasQuote"]:
                    # the configuration says not to escape quotes and nothing else escapes them: the early termination is what was configured
                    unj = unj or Verdict("ok", "", nt, key, tags=tags + (ctag, "unjudged:config-does-not-escape-quote"))
                else:
                    viol = viol or Verdict("violation", what, nt, key, tags=tags + (ctag,))
            elif r["model"] != o:
                drift = drift or Verdict("drift", f"field {src!r} under {cfg['name']}: model {uncps(r['model'])!r} vs impl {uncps(o)!r}", nt, key, tags=tags + (ctag,))
        return viol or known or drift or unj or Verdict("ok", "", nt, key, tags=tags)


def _d3_class(parts):
    for a, b in zip(parts, parts[1:]):
        if a == ord("\\") and (b in ("*", "?") or b in (ord("\\"), ord("*"), ord("?"))):
            return True
    return False


def _bs_before_wildcard(parts):
    return any(a == ord("\\") and b in ("*", "?") for a, b in zip(parts, parts[1:]))


def shrink(case, v, evaluate):
    cur, curv = case, v
    f = "src" if "src" in case else "name"
    improved = True
    while improved and len(cur[f]) > 0:
        improved = False
        cands = [dict(cur, **{f: cur[f][:i] + cur[f][i + 1:]}) for i in range(len(cur[f]))]
        for c, i, r, vv in evaluate(cands):
            if vv.status == "violation" and vv.finding == curv.finding:
                cur, curv, improved = c, vv, True
                break
    return cur, curv
