"""C19 — validation only observes: it is exact about references and changes nothing.

Collections with adversarial detection names and duplicate ids / titles / file names are validated with a
random subset of the built-in validators in a random order, the rules in a random order, with exclusions.
Checked: (1) every rule's dict form and converted queries are identical before and after validation;
(2) the issue multiset (issue class, rule titles as a set, extra fields) is the same for a second run with
rules and validators permuted; (3) reference issues and uniqueness groups are exactly those of the Lean
model (`Valid`), which refers to conditions through the same parser/selector model as C02;
(4) an exclusion suppresses exactly the excluded validator for the excluded rule id."""
from __future__ import annotations
import copy, random, uuid
from .common import Verdict, cps, uncps, outcome_of_exception

ID = "C19"
GEN = ["Cond", "Valid"]
RULE = ("collections of 1..5 rules (detection names from a pool with keyword-prefixed, digit-leading and underscore-prefixed "
        "names; conditions with identifiers, them, patterns that match / match nothing; duplicate ids, titles and file names "
        "in any multiplicity) x random subsets and orders of the built-in validators x two rule orders x exclusion tables; "
        "validation before vs after conversion; distinct = distinct (collection, validator order); non-trivial = >= 2 rules"
        "; list-valued attributes in unsorted order; verbatim copies of a rule under two directories")
RULE += '; round 4: validation after a conversion whose pipeline adds a condition and renames fields: reference checks exact for the rewritten rules (second Lean request)'
RULE += '; round 4: exclusion tables with the key None (rules without id)'
ASSUMPTIONS = [
    "validators needing network data (MITRE ATT&CK / D3FEND tag validators) are excluded from the validator pool",
    "issues are compared as (class, set of rule titles, extra fields) multisets",
]
NAMES = ["sel", "notepad", "android", "1st", "_inj", "a-b", "filter_1", "filter_2", "selection", "orb", "allx"]
CONDS = ["{0}", "{0} and {1}", "{0} or not {1}", "1 of them", "all of them", "1 of filter_*", "any of *_1", "{0} and 1 of zzz*", "1 of _*",
         "not {0}", "all of sel*", "{0} and not 1 of nomatch_*"]


def validator_pool():
    import importlib, inspect, pkgutil
    import sigma.validators.core as c
    from sigma.validators.base import SigmaRuleValidator
    vs = {}
    for m in pkgutil.iter_modules(c.__path__):
        mod = importlib.import_module("sigma.validators.core." + m.name)
        for n, o in inspect.getmembers(mod, inspect.isclass):
            if issubclass(o, SigmaRuleValidator) and o.__module__ == mod.__name__ and not inspect.isabstract(o) and not n.endswith("Base"):
                vs[n] = o
    for bad in ("ATTACKTagValidator", "D3FENDTagValidator"):
        vs.pop(bad, None)
    return vs


def gen_rule(rnd, i, dup):
    n = rnd.randint(1, 4)
    names = rnd.sample(NAMES, n)
    dets = {nm: {f"f{j}": rnd.choice(["v", "w*", "*x*", 5, "a\\*b"])} for j, nm in enumerate(names)}
    cond = rnd.choice(CONDS).format(names[0], names[-1])
    conds = cond if rnd.random() < 0.8 else [cond, rnd.choice(CONDS).format(names[-1], names[0])]
    tsel = rnd.choice(dup['titles'])
    # titles incl. the shortest ones: the empty title and a blank are values like any other that rules can share
    d = {"title": {0: "", 1: " "}.get(tsel, f"Title {tsel}") if dup.get("short_titles") else f"Title {tsel}", "logsource": {"category": "process_creation", "product": "windows"},
         "detection": {**dets, "condition": conds}, "level": "medium", "status": "test", "tags": ["attack.t1059", "attack.execution", "attack.defense-evasion"],
         # list-valued attributes in a non-sorted order, some with duplicates: a validator must not reorder or deduplicate them
         "references": rnd.choice([["https://z.example/b", "https://a.example/a"], ["https://m.example", "https://b.example", "https://m.example"]]),
         "falsepositives": ["unlikely", "admins"], "fields": ["f2", "f0", "f1"], "author": "x"}
    if rnd.random() < 0.85:
        d["id"] = str(uuid.UUID(int=0x3000 + rnd.choice(dup["ids"])))
    return d


def gen_cases(tier, seed, gen, effort):
    rnd = random.Random(seed * 7001 + 19)
    thorough = tier == "thorough"
    cases = []
    for _ in range((600 if not thorough else 8000) * effort):
        n = rnd.randint(1, 5)
        dup = {"titles": list(range(rnd.randint(1, n))), "ids": list(range(rnd.randint(1, n))), "short_titles": rnd.random() < 0.25}
        rules = [gen_rule(rnd, i, dup) for i in range(n)]
        files = [f"rule_{rnd.choice(range(max(1, n - 1)))}.yml" for _ in range(n)]
        dirs = [rnd.choice(["a", "b"]) for _ in range(n)]
        if rnd.random() < 0.35:
            # verbatim copies of a rule (the same file in two directories): they share id and title like any other duplicates
            k = rnd.randrange(n)
            for _ in range(rnd.choice([1, 1, 2])):
                rules.append(copy.deepcopy(rules[k])); files.append(files[k]); dirs.append("b" if dirs[k] == "a" else "a")
        cases.append({"rules": rules, "files": files, "dirs": dirs, "vseed": rnd.getrandbits(30), "exclude": rnd.random() < 0.4,
                      # the exclusion table's entry for rules WITHOUT an id (key None): it concerns those rules only
                      "exclude_none": rnd.random() < 0.3})
    return cases, False


def issue_key(i):
    import dataclasses
    extra = {f.name: str(getattr(i, f.name)) for f in dataclasses.fields(i) if f.name not in ("rules", "severity", "description")}
    return [type(i).__name__, sorted(r.title + "|" + str(r.source.path if r.source else None) for r in i.rules), sorted(extra.items())]


def load(case, order):
    from pathlib import Path
    from sigma.rule import SigmaRule
    from sigma.exceptions import SigmaRuleLocation
    rules = []
    for k in order:
        r = SigmaRule.from_dict(copy.deepcopy(case["rules"][k]), source=SigmaRuleLocation(Path(f"/rules/{case['dirs'][k]}/{case['files'][k]}")))
        rules.append(r)
    return rules


def run_impl(case):
    from sigma.validation import SigmaValidator
    from sigma.collection import SigmaCollection
    from sigma.backends.test import TextQueryTestBackend
    try:
        pool = validator_pool()
        vr = random.Random(case["vseed"])
        names = sorted(pool)
        chosen = [n for n in names if vr.random() < 0.7] or names[:3]
        for must in ("DanglingDetectionValidator", "DanglingConditionValidator", "IdentifierUniquenessValidator", "DuplicateTitleValidator", "DuplicateFilenameValidator"):
            if must not in chosen:
                chosen.append(must)
        n = len(case["rules"])
        out = {}
        runs = []
        for run in range(2):
            order = list(range(n)); vr.shuffle(order)
            vorder = list(chosen); vr.shuffle(vorder)
            rules = load(case, order)
            before = [(r.to_dict(), ) for r in rules]
            excl = {}
            if case["exclude"] and rules[0].id is not None:
                excl = {rules[0].id: {pool["DanglingDetectionValidator"]}}
            if case.get("exclude_none"):
                excl[None] = {pool["DanglingDetectionValidator"]}
            v = SigmaValidator([pool[x] for x in vorder], excl)
            issues = v.validate_rules(iter(rules))
            after = [(r.to_dict(), ) for r in rules]
            conv = None
            try:
                conv = TextQueryTestBackend().convert(SigmaCollection(copy.copy(rules), resolve_references=False))
            except Exception as e:
                conv = "ERR:" + outcome_of_exception(e)
            fresh = load(case, order)
            try:
                conv_fresh = TextQueryTestBackend().convert(SigmaCollection(fresh, resolve_references=False))
            except Exception as e:
                conv_fresh = "ERR:" + outcome_of_exception(e)
            runs.append({"order": order, "unchanged": before == after, "conv_same": conv == conv_fresh,
                         "issues": sorted((issue_key(i) for i in issues), key=repr),
                         "excluded_rule": order[0] if (case["exclude"] and rules[0].id is not None) else None})
        # validation AFTER a conversion whose pipeline rewrites the rules (a condition added to every rule, fields renamed): the
        # reference checks are exact for the rules as they are now
        post = None
        try:
            from sigma.processing.pipeline import ProcessingPipeline
            pl = ProcessingPipeline.from_dict({"name": "p", "priority": 10, "transformations": [
                {"id": "ac", "type": "add_condition", "conditions": {"EventID": 1}},
                {"id": "fm", "type": "field_name_mapping", "mapping": {"f": "mapped_f", "g": ["g1", "g2"]}}]})
            rules = load(case, list(range(n)))
            TextQueryTestBackend(pl, collect_errors=True).convert(SigmaCollection(copy.copy(rules), resolve_references=False))
            state = [{"dets": list(r.detection.detections), "conds": [pc.condition for pc in r.detection.parsed_condition]} for r in rules]
            v = SigmaValidator([pool[x] for x in ("DanglingDetectionValidator", "DanglingConditionValidator")], {})
            post = {"state": state, "issues": sorted((issue_key(i) for i in v.validate_rules(rules)), key=repr)}
        except Exception as e:
            post = {"error": outcome_of_exception(e), "msg": str(e)[:200]}
        return {"outcome": "ok", "runs": runs, "validators": chosen, "post": post}
    except Exception as e:
        return {"outcome": outcome_of_exception(e), "msg": str(e)[:200]}


def make_request(case, impl, gen):
    rules = []
    for r in case["rules"]:
        det = r["detection"]
        conds = det["condition"] if isinstance(det["condition"], list) else [det["condition"]]
        rules.append({"dets": [cps(n) for n in det if n != "condition"], "conds": [cps(c) for c in conds]})
    ids = [int(uuid.UUID(r["id"]).int) - 0x3000 if "id" in r else None for r in case["rules"]]
    tmap = {}
    titles = [tmap.setdefault(r["title"], len(tmap)) for r in case["rules"]]
    fmap = {}
    files = [fmap.setdefault(f, len(fmap)) for f in case["files"]]
    req = {"op": "valid.case", "rules": rules, "ids": ids, "titles": titles, "files": files}
    g = gen.get("Cond")
    if g:
        req["grammar"] = {k: (cps(v) if isinstance(v, str) else [cps(x) for x in v] if isinstance(v, list) else v) for k, v in g.items() if k != "whiteChars"}
    post = (impl.get("post") or {}).get("state") if isinstance(impl, dict) else None
    if post:      # the rules as the conversion left them
        req2 = dict(req, rules=[{"dets": [cps(n) for n in st["dets"]], "conds": [cps(c) for c in st["conds"]]} for st in post])
        return {"op": "multi", "parts": [req, req2]}
    return req


def judge(case, impl, reply):
    io = impl["outcome"]
    key = (case["rules"], case["files"], case["dirs"], case["vseed"])
    nt = len(case["rules"]) >= 2
    tags = [f"impl:{io.split(':')[0]}", f"n:{len(case['rules'])}"]
    if io != "ok":
        return Verdict("violation", f"validation raised {io}: {impl.get('msg')} for {[r['detection'] for r in case['rules']]}", nt, key, tags=tuple(tags))
    runs = impl["runs"]
    reply_post = None
    if "parts" in reply:
        reply, reply_post = reply["parts"]
    for r in runs:
        if not r["unchanged"]:
            return Verdict("violation", f"a rule's dict form changed during validation (rule order {r['order']}, validators {impl['validators']})", nt, key, tags=tuple(tags))
        if not r["conv_same"]:
            return Verdict("violation", f"validated rules convert differently from freshly loaded ones (rule order {r['order']})", nt, key, tags=tuple(tags))

    def strip(issues, excluded):
        return [i for i in issues if not (excluded is not None and i[0] == "DanglingDetectionIssue")]
    a = [i for i in runs[0]["issues"] if i[0] != "DanglingDetectionIssue"]
    b = [i for i in runs[1]["issues"] if i[0] != "DanglingDetectionIssue"]
    if a != b:
        diff = [i for i in a if i not in b] + [i for i in b if i not in a]
        return Verdict("violation", f"issue set depends on the order of rules / validators: {diff[:3]} (orders {runs[0]['order']} vs {runs[1]['order']})", nt, key, tags=tuple(tags))
    # exactness against the Lean model, run 0
    titles = [r["title"] for r in case["rules"]]
    paths = [f"/rules/{d}/{f}" for d, f in zip(case["dirs"], case["files"])]
    ident = [f"{t}|{p}" for t, p in zip(titles, paths)]
    for run in runs:
        issues = run["issues"]
        for k, (r, rr) in enumerate(zip(case["rules"], reply["rules"])):
            if rr.get("parseError"):
                continue
            excluded = run["excluded_rule"] == k or (run["excluded_rule"] is not None and "id" in r and r.get("id") == case["rules"][run["excluded_rule"]].get("id"))
            excluded = excluded or (bool(case.get("exclude_none")) and "id" not in r)
            got_dd = sorted(dict(i[2])["detection_name"] for i in issues if i[0] == "DanglingDetectionIssue" and i[1] == [ident[k]])
            want_dd = [] if excluded else sorted(uncps(x) for x in rr["danglingDetections"])
            # several rules may share title and path: then issues of both are pooled; compare pooled
            same = [j for j in range(len(ident)) if ident[j] == ident[k]]
            if len(same) > 1:
                continue
            if got_dd != want_dd:
                return Verdict("violation", (f"rule {r['detection']}: reported unused detections {got_dd}, exactly {want_dd} are referred to by no condition"
                                             f"{' (DanglingDetectionValidator is excluded for this rule id / for rules without id)' if excluded else ''}"), nt, key, tags=tuple(tags))
            got_dc = sorted(dict(i[2])["condition_name"] for i in issues if i[0] == "DanglingConditionIssue" and i[1] == [ident[k]])
            want_dc = sorted(uncps(x) for x in rr["danglingConditions"])
            if got_dc != want_dc:
                return Verdict("violation", f"rule {r['detection']}: reported dangling selectors {got_dc}, exactly {want_dc} match no detection", nt, key, tags=tuple(tags))
        for cls, grp in (("IdentifierCollisionIssue", "idGroups"), ("DuplicateTitleIssue", "titleGroups")):
            got = sorted(sorted(i[1]) for i in issues if i[0] == cls)
            want = sorted(sorted(ident[j] for j in g["rules"]) for g in reply[grp])
            if got != want:
                return Verdict("violation", f"{cls}: reported groups {got} but the rules sharing a value are exactly {want}", nt, key, tags=tuple(tags))
        # file names: a group is reported when the same file name occurs under >= 2 different paths
        got = sorted(sorted(i[1]) for i in issues if i[0] == "DuplicateFilenameIssue")
        want = []
        for g in reply["fileGroups"]:
            ps = {paths[j] for j in g["rules"]}
            if len(ps) > 1:
                want.append(sorted(ident[j] for j in g["rules"]))
        if got != sorted(want):
            return Verdict("violation", f"DuplicateFilenameIssue: reported groups {got} but the rules sharing a file name under different paths are exactly {sorted(want)}", nt, key, tags=tuple(tags))
    post = impl.get("post") or {}
    if post.get("error", "").startswith("other:"):
        return Verdict("violation", f"validation after a conversion raised {post['error']}: {post.get('msg')}", nt, key, tags=tuple(tags))
    if reply_post is not None and "issues" in post:
        tags.append("post-conversion")
        for k, (r, st, rr) in enumerate(zip(case["rules"], post["state"], reply_post["rules"])):
            if rr.get("parseError") or len([j for j in range(len(ident)) if ident[j] == ident[k]]) > 1:
                continue
            got_dd = sorted(dict(i[2])["detection_name"] for i in post["issues"] if i[0] == "DanglingDetectionIssue" and i[1] == [ident[k]])
            want_dd = sorted(uncps(x) for x in rr["danglingDetections"])
            if got_dd != want_dd:
                return Verdict("violation", (f"validation after a conversion that added a condition: rule with detections {st['dets']} and conditions {st['conds']}: "
                                             f"reported unused detections {got_dd}, exactly {want_dd} are referred to by no condition"), nt, key, tags=tuple(tags))
            got_dc = sorted(dict(i[2])["condition_name"] for i in post["issues"] if i[0] == "DanglingConditionIssue" and i[1] == [ident[k]])
            want_dc = sorted(uncps(x) for x in rr["danglingConditions"])
            if got_dc != want_dc:
                return Verdict("violation", (f"validation after a conversion that added a condition: rule with detections {st['dets']} and conditions {st['conds']}: "
                                             f"reported dangling selectors {got_dc}, exactly {want_dc} match no detection"), nt, key, tags=tuple(tags))
    return Verdict("ok", "", nt, key, tags=tuple(tags))
