"""C11 — a filter narrows exactly the rules it targets and nothing else.

(rule set, filter set) pairs with overlapping detection names on both sides (names starting with keywords,
digits, underscore; upper-case keyword look-alikes), log sources in all subset relations, rule lists by id,
by name, 'any', empty, non-matching; several filters stacked.  The collection is loaded (filters applied
with a random internal prefix) and converted with a real backend; per rule the emitted queries are compared
— as truth tables over all atoms, via the Lean rule semantics — with (rule condition) AND (condition of
every filter that applies per the Lean model `Filter.applies`) where each side's selectors range over its
own detections only.  Diagnostic: the rewritten filter condition equals the model's `Filter.rewrite`."""
from __future__ import annotations
import copy, random, re, uuid
from .common import Verdict, cps, uncps, outcome_of_exception
from . import qsyntax, c01
from .c01 import det_json

ID = "C11"
GEN = ["FilterTok"]
RULE = ("1..3 detection rules x 1..2 filters; detection names from {sel, filter, 1st, _u, "
        "Any, OF, notepad, selection_1, selection_2, flt_a, flt_b}; rule conditions with identifiers, them, patterns; filter "
        "conditions with identifiers, not, them, prefix/suffix patterns; log sources in all subset relations; rule lists by "
        "id / name / any / empty / non-matching; repeated loads (fresh random prefix each time); distinct = distinct "
        "(rules, filters); non-trivial = at least one filter applies to at least one rule"
        "; rule references by UUID in other spellings; 30% converted through a pipeline that prefixes every field name"
        "; log sources with a definition text; filters sharing a title"
        "; load stream: the documents in any order (filter documents before, between, after the rules), loaded by from_dicts / "
        "from_yaml / SigmaCollection(objects) / collect_filters + apply_filters, rules carrying metadata (status, level, date, "
        "tags, author, ...) and — loaded with collect_errors=True — metadata values that are collected as errors while log "
        "source and detection stay valid"
        "; value stream: log source attributes on either side left out / null / empty string / non-empty (the empty string is a "
        "specified value), filter log sources derived attribute-wise from a rule's; rule-list keyword 'any' in any letter case")
ASSUMPTIONS = c01.ASSUMPTIONS[:2] + [
    "a rule selector whose pattern starts with '_' may capture the filter's internal names (recorded finding D10b); not generated except in its own sub-stream",
]
NAMES = ["sel", "filter", "1st", "_u", "Any", "OF", "notepad", "selection_1", "selection_2", "flt_a", "flt_b"]
CFG = {"prec": ["not", "and", "or"], "parenthesize": False, "orAsIn": False, "andAsIn": False, "inAllowWild": False, "notAsNotEq": False,
       "sw": True, "ew": True, "ct": True, "wm": False, "cased": "all", "explicitNotExists": False, "nativeCidr": True}
LOGSOURCES = [{"category": "c1"}, {"category": "c1", "product": "p1"}, {"category": "c1", "product": "p1", "service": "s1"},
              {"product": "p1"}, {"category": "c2"}, {"product": "p2", "service": "s1"}]


def gen_detections(rnd, side, n):
    names = rnd.sample(NAMES, n)
    if all(x.startswith("_") for x in names):
        names[0] = "sel"          # `them` must have something to stand for
    dets = {}
    for i, nm in enumerate(names):
        dets[nm] = {f"{side}{i}": f"{side}v{i}"} if rnd.random() < 0.7 else {f"{side}{i}": [f"{side}a{i}", f"{side}b{i}"]}
    return dets


def gen_cond(rnd, names, is_filter):
    atoms = list(names)
    pats = ["them"]
    for nm in names:
        if "_" in nm.strip("_"):
            pats.append(nm.split("_")[0] + "_*")
            pats.append("*_" + nm.split("_")[-1])
    sels = [f"{q} of {p}" for q in ("1", "all", "any") for p in pats]
    pool = atoms + rnd.sample(sels, min(2, len(sels)))
    a, b = rnd.choice(pool), rnd.choice(pool)
    forms = [a, f"not {a}", f"{a} and {b}", f"{a} or {b}", f"not ({a} or {b})", f"{a} and not {b}"]
    if is_filter:
        forms += [f"not {a}", f"not 1 of them" if True else a]
    return rnd.choice(forms)


def gen_case(rnd):
    nr = rnd.randint(1, 3)
    rules = []
    for i in range(nr):
        dets = gen_detections(rnd, "r", rnd.randint(1, 3))
        d = {"title": f"rule{i}", "name": f"rname{i}", "id": str(uuid.UUID(int=0xabcdef00 + i)), "logsource": dict(copy.deepcopy(rnd.choice(LOGSOURCES)), **({"definition": "rule side note"} if rnd.random() < 0.15 else {})),
             "detection": {**dets, "condition": gen_cond(rnd, list(dets), False)}}
        if rnd.random() < 0.15:
            d["detection"]["condition"] = [d["detection"]["condition"], gen_cond(rnd, list(dets), False)]
        rules.append(d)
    if False:
        rules.append({"title": "corr", "name": "corr0", "correlation": {"type": "event_count", "rules": ["rname0"], "group-by": ["f"], "timespan": "5m",
                                                                       "condition": {"gte": 2}, "generate": True}})
    filters = []
    for k in range(rnd.randint(1, 2)):
        dets = gen_detections(rnd, f"f{k}", rnd.randint(1, 3))
        how = rnd.random()
        if how < 0.25: rl = "any"
        elif how < 0.35: rl = []
        elif how < 0.6: rl = [rnd.choice(rules)["name"]]
        elif how < 0.8:
            rl = [r["id"] for r in rnd.sample([r for r in rules if "id" in r], 1)]
            sp = rnd.random()      # a UUID names the same rule in every spelling
            if sp < 0.15: rl = [x.upper() for x in rl]
            elif sp < 0.25: rl = ["{" + x + "}" for x in rl]
            elif sp < 0.35: rl = ["urn:uuid:" + x for x in rl]
            elif sp < 0.4: rl = [x.replace("-", "") for x in rl]
        elif how < 0.9: rl = "rname0"
        else: rl = ["nomatch", str(uuid.UUID(int=0x9999))]
        fls = copy.deepcopy(rnd.choice(LOGSOURCES))
        if rnd.random() < 0.3:
            fls["definition"] = "a note about the log source: it does not take part in matching"
        filters.append({"title": f"filter{k}" if rnd.random() < 0.6 else "filter", "logsource": fls,      # several filters may share a title
                        "filter": {"rules": rl, **dets, "condition": gen_cond(rnd, list(dets), True)}})
    return {"rules": rules, "filters": filters}


META_OK = {"status": ["test", "stable", "experimental"], "level": ["low", "high", "critical"], "date": ["2024-01-31", "2023-12-01"],
           "modified": ["2024-02-01"], "tags": [["attack.t1059"], ["attack.execution", "cve.2024-1234"]], "author": ["someone"],
           "description": ["a description"], "falsepositives": [["none known"]], "references": [["https://example.org/a"]],
           "license": ["MIT"], "fields": [["r0", "User"]]}
# values the rule parser rejects; with collect_errors=True they are collected and the rule (log source, detection) is kept
META_BAD = {"status": ["testing", 5], "level": ["urgent", ["high"]], "date": ["2024/31/01", "yesterday"], "modified": ["31.01.2024"],
            "tags": [["nodot"], "attack.t1059"], "author": [["a", "b"]], "description": [["x"]], "falsepositives": ["none"],
            "references": ["https://example.org/a"], "license": [1], "fields": ["r0"]}
ENTRIES = ["from_dicts", "from_yaml", "objects", "apply_filters"]


def gen_load(rnd, case):
    """how the documents reach the collection: their order, the entry point, error collection, rule metadata.  None of it
    is mentioned by the property: applicability depends on log source and rule list only."""
    n = len(case["rules"]) + len(case["filters"])
    order = list(range(n))
    rnd.shuffle(order)
    case["order"] = order
    case["entry"] = rnd.choice(ENTRIES)
    case["collect"] = rnd.random() < 0.5
    for r in case["rules"]:
        for k in rnd.sample(sorted(META_OK), rnd.randint(0, 3)):
            bad = case["collect"] and rnd.random() < 0.4
            r[k] = copy.deepcopy(rnd.choice((META_BAD if bad else META_OK)[k]))
    return case


LS_ATTRS = ("category", "product", "service")
LS_VALUES = {"category": ["c1", "c2"], "product": ["p1", "p2"], "service": ["s1", "s2"]}
ANY_SPELLINGS = ["any", "Any", "ANY", "aNy", "anY"]


def _ls_nonempty(rnd, ls):
    """SigmaLogSource refuses a log source whose three attributes are all missing / null"""
    if all(ls.get(k) is None for k in LS_ATTRS):
        k = rnd.choice(LS_ATTRS)
        ls[k] = rnd.choice(["", LS_VALUES[k][0]])
    return ls


def gen_ls_values(rnd):
    """a log source whose attributes are each: left out, an explicit null (both: not specified), the empty string or a
    non-empty string (both: a specified value)"""
    ls = {}
    for k in LS_ATTRS:
        r = rnd.random()
        if r < 0.35: continue
        ls[k] = None if r < 0.45 else ("" if r < 0.65 else LS_VALUES[k][0] if r < 0.95 else LS_VALUES[k][1])
    return _ls_nonempty(rnd, ls)


def ls_related(rnd, base):
    """a log source in some subset relation with `base`: attribute by attribute the same, left out, null, empty or another value"""
    ls = {}
    for k in LS_ATTRS:
        r = rnd.random()
        if r < 0.5:
            if k in base: ls[k] = base[k]
        elif r < 0.65: continue
        elif r < 0.7: ls[k] = None
        elif r < 0.87: ls[k] = ""
        else: ls[k] = rnd.choice(LS_VALUES[k])
    return _ls_nonempty(rnd, ls)


def gen_values_case(rnd):
    """attribute-value / keyword-spelling stream: the property says the filter's log source must cover the rule's (every
    attribute the filter specifies — the empty string is a specified value, null is not — equals the rule's) and that the
    rule list may be 'any' (a keyword: any letter case)"""
    c = gen_case(rnd)
    for r in c["rules"]:
        keep = {k: v for k, v in r["logsource"].items() if k == "definition"}
        r["logsource"] = {**gen_ls_values(rnd), **keep}
    for f in c["filters"]:
        keep = {k: v for k, v in f["logsource"].items() if k == "definition"}
        f["logsource"] = {**ls_related(rnd, rnd.choice(c["rules"])["logsource"]), **keep}
        if rnd.random() < 0.55:
            f["filter"]["rules"] = rnd.choice(ANY_SPELLINGS)
    if rnd.random() < 0.5:
        gen_load(rnd, c)
    return c


def gen_cases(tier, seed, gen, effort):
    rnd = random.Random(seed * 6151 + 11)
    thorough = tier == "thorough"
    cases = [gen_case(rnd) for _ in range((1500 if not thorough else 25000) * effort)]
    for c in cases:
        if rnd.random() < 0.3:
            c["prefix"] = True       # converted through a pipeline that prefixes every field name: each rule's copy of the filter is transformed once
    # D10b sub-stream: rule pattern starting with '_'
    for _ in range(20):
        c = gen_case(rnd)
        c["rules"][0]["detection"] = {"_x": {"r0": "v"}, "sel": {"r1": "w"}, "condition": "sel and not 1 of _*"}
        c["d10b"] = True
        cases.append(c)
    # load stream: document order x entry point x error collection x rule metadata
    rnd2 = random.Random(seed * 7919 + 1111)
    for _ in range((700 if not thorough else 12000) * effort):
        cases.append(gen_load(rnd2, gen_case(rnd2)))
    # attribute-value / keyword-spelling stream
    rnd3 = random.Random(seed * 7919 + 1112)
    for _ in range((700 if not thorough else 12000) * effort):
        cases.append(gen_values_case(rnd3))
    return cases, False


def run_impl(case):
    from sigma.collection import SigmaCollection
    try:
        docs = copy.deepcopy(case["rules"] + case["filters"])
        docs = [docs[i] for i in case.get("order", range(len(docs)))]
        entry, collect = case.get("entry", "from_dicts"), bool(case.get("collect"))
        if entry == "from_dicts":
            coll = SigmaCollection.from_dicts(docs, collect_errors=collect)
        elif entry == "from_yaml":
            import yaml
            coll = SigmaCollection.from_yaml("---\n".join(yaml.safe_dump(d, sort_keys=False) for d in docs), collect_errors=collect)
        elif entry == "objects":
            from sigma.rule import SigmaRule
            from sigma.filters import SigmaFilter
            coll = SigmaCollection([(SigmaFilter if "filter" in d else SigmaRule).from_dict(d, collect_errors=collect) for d in docs])
        else:
            coll = SigmaCollection.from_dicts(docs, collect_errors=collect, collect_filters=True)
            coll.apply_filters(coll.filters)
    except Exception as e:
        return {"outcome": outcome_of_exception(e), "stage": "load", "msg": str(e)[:200]}
    try:
        conds = {r.title: list(r.detection.condition) for r in coll.rules if hasattr(r, "detection")}
        if case.get("prefix"):
            from sigma.processing.pipeline import ProcessingPipeline
            pl = ProcessingPipeline.from_dict({"name": "p", "priority": 1, "transformations": [{"type": "field_name_prefix", "prefix": "x."}]})
            b = qsyntax.make_backend(CFG)(pl)
        else:
            b = qsyntax.make_backend(CFG)()
        b.convert(coll)
        res = {r.title: [str(q) for q in r.get_conversion_result()] for r in coll.rules}
        return {"outcome": "ok", "results": res, "conds": conds}
    except Exception as e:
        return {"outcome": outcome_of_exception(e), "stage": "convert", "msg": str(e)[:200]}


def _d10c(f):
    """filter with an underscore-named detection of its own whose condition uses `them` or a pattern with a leading '*'"""
    fl = f["filter"]
    names = [k for k in fl if k not in ("rules", "condition")]
    return any(n.startswith("_") for n in names) and re.search(r"of\s+(them|\*)", fl["condition"]) is not None


def canon_ref(x):
    """a rule reference that is a UUID in any spelling denotes the rule with that identifier"""
    try:
        return str(uuid.UUID(x))
    except (ValueError, AttributeError, TypeError):
        return x


def ls_json(ls):
    return {k: (cps(ls[k]) if ls.get(k) is not None else None) for k in ("category", "product", "service")}


def prefixed(d, on):
    """the documented effect of field_name_prefix 'x.' on a detection definition (all generated items are field: value maps)"""
    if not on:
        return d
    if isinstance(d, dict):
        return {"x." + k: v for k, v in d.items()}
    if isinstance(d, list):
        return [prefixed(x, on) for x in d]
    return d


def make_request(case, impl, gen):
    case = dict(case, rules=[dict(r, detection={k: (prefixed(v, case.get("prefix")) if k != "condition" else v) for k, v in r["detection"].items()}) if "detection" in r else r
                             for r in case["rules"]],
                filters=[dict(f, filter={k: (prefixed(v, case.get("prefix")) if k not in ("condition", "rules") else v) for k, v in f["filter"].items()}) for f in case["filters"]])
    filters = []
    for f in case["filters"]:
        fl = f["filter"]
        dets = {k: v for k, v in fl.items() if k not in ("rules", "condition")}
        rl = fl["rules"]
        if rl == [] or (isinstance(rl, str) and rl.lower() == "any"):
            fr = "any"
        else:
            fr = [cps(canon_ref(x)) for x in (rl if isinstance(rl, list) else [rl])]
        filters.append({"flog": ls_json(f["logsource"]), "frules": fr,
                        "dets": [{"name": cps(n), "det": det_json(d)} for n, d in dets.items()], "cond": cps(fl["condition"])})
    rules = []
    for r in case["rules"]:
        if "correlation" in r:
            rules.append({"corr": True, "log": ls_json({}), "keys": [cps(r["name"])], "dets": [], "items": []})
            continue
        det = r["detection"]
        conds = det["condition"] if isinstance(det["condition"], list) else [det["condition"]]
        items = []
        for i, c in enumerate(conds):
            it = {"cond": cps(c)}
            if impl["outcome"] == "ok":
                qs = impl["results"].get(r["title"], [])
                if i < len(qs):
                    try:
                        it["query"] = qsyntax.tokenize(qs[i])
                    except qsyntax.Tokenize as e:
                        it["tokErr"] = str(e)
            items.append(it)
        rules.append({"corr": False, "log": ls_json(r["logsource"]), "keys": [cps(r["name"]), cps(r["id"])],
                      "dets": [{"name": cps(n), "det": det_json(d)} for n, d in det.items() if n != "condition"], "items": items})
    return {"op": "filter.case", "cfg": {"prec": CFG["prec"], "nativeCidr": True}, "rules": rules, "filters": filters}


def judge(case, impl, reply):
    io = impl["outcome"]
    key = (case["rules"], case["filters"], case.get("prefix"), case.get("order"), case.get("entry"), case.get("collect"))
    load = (f"; documents loaded in order {[(case['rules'] + case['filters'])[i]['title'] for i in case['order']]} by {case['entry']}"
            f"{' with collect_errors=True' if case.get('collect') else ''}, rule metadata "
            f"{ {r['title']: {k: r[k] for k in META_OK if k in r} for r in case['rules']} }") if "order" in case else ""
    applies_any = any(any(r["applies"]) for r in reply["rules"])
    nt = applies_any
    tags = [f"impl:{io.split(':')[0]}", f"rules:{len(case['rules'])}", f"filters:{len(case['filters'])}", f"applies:{applies_any}"]
    if "order" in case:
        tags += [f"entry:{case['entry']}", f"collect:{case['collect']}",
                 f"filter-first:{'filter' in (case['rules'] + case['filters'])[case['order'][0]]}"]
    fid = "D10b" if case.get("d10b") else None
    if fid is None and any(_d10c(f) for f in case["filters"]):
        fid = "D10c"
    if io != "ok":
        return Verdict("violation", f"{io} at {impl.get('stage')}: {impl.get('msg')} for rules {[r.get('detection') for r in case['rules']]} filters {[f['filter'] for f in case['filters']]}{load}",
                       nt, key, finding=fid, tags=tuple(tags))
    for r, rr in zip(case["rules"], reply["rules"]):
        if "correlation" in r:
            continue
        qs = impl["results"].get(r["title"], [])
        conds = r["detection"]["condition"] if isinstance(r["detection"]["condition"], list) else [r["detection"]["condition"]]
        if len(qs) != len(conds):
            return Verdict("violation", f"rule {r['title']}: {len(conds)} conditions, {len(qs)} queries", nt, key, finding=fid, tags=tuple(tags))
        applied = [f["title"] for f, a in zip(case["filters"], rr["applies"]) if a]
        for c, q, res in zip(conds, qs, rr["items"]):
            if "tokErr" in res:
                return Verdict("violation", f"rule {r['title']}: query not well-formed ({res['tokErr']}): {q!r}", nt, key, finding=fid, tags=tuple(tags))
            if "specErr" in res:
                if res["specErr"] == "condition" and "selector" in str(res.get("detail")):
                    tags.append("unjudged:empty-selector"); continue
                return Verdict("violation", f"specification cannot read rule {r['title']} ({res}) but it converted to {q!r}", nt, key, finding=fid, tags=tuple(tags))
            if res.get("tooMany"):
                continue
            if res.get("readErr") or not res.get("equal"):
                return Verdict("violation", (f"rule {r['title']} {r['detection']} with log source {r['logsource']}; filters that apply per specification: {applied} "
                                             f"({[(f['logsource'], f['filter']) for f in case['filters']]}){load}; emitted {q!r} (rewritten condition {impl['conds'].get(r['title'])}) "
                                             f"does not mean (rule) AND (applying filters): differs when exactly {c01.show_atoms(res.get('trueAtoms'))} hold; "
                                             f"only in query {c01.show_atoms(res.get('extraAtoms'))}, only in specification {c01.show_atoms(res.get('missingAtoms'))}"),
                               nt, key, finding=fid, tags=tuple(tags))
    return Verdict("ok", "", nt, key, tags=tuple(tags))
