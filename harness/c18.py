"""C18 — CIDR expansion matches exactly the addresses of the network.

The implementation's observable is `SigmaCIDRExpression(c).expand()` (the wildcard patterns), the
native-CIDR rendering of a backend with a `cidr_expression` template, or the error class for an
invalid string.  IPv4: the patterns are parsed into integer ranges and compared *as sets* with the
network range (exact, not sampled), and pairwise disjointness is checked.  IPv6: completeness is
probed with addresses chosen so that zero-run compression and leading-zero suppression move
(the Lean driver renders canonical text and matches the patterns)."""
from __future__ import annotations
import random
from .common import Verdict, cps, uncps, outcome_of_exception
from . import c01

ID = "C18"
GEN = ["Cidr"]
RULE = ("IPv4: every prefix length 0..32 x {boundary, random} network addresses; set equality of the matched set with "
        "the network range computed on integer ranges; IPv6: every prefix length 0..128 (thorough) / a spread (quick) x "
        "network addresses with zero hextets in every group position x probe addresses with zero runs / single bits in "
        "every host hextet; native CIDR rendering; invalid strings; distinct = distinct CIDR string; non-trivial = "
        "prefix not a multiple of 8 (v4) / 4 (v6) or a network address with a zero group"
        "; native rendering of other valid spellings (netmask form, exploded/upper-case IPv6, host without prefix); query-level cases: the OR of patterns under AND / NOT for backends with and without in-lists")
RULE += '; round 4: invalid texts incl. valid networks with surrounding / embedded whitespace and other foreign characters, through the value class, a rule value and a rule value list'
RULE += '; round 5: the native expression after the same backend class rendered negated items (not-equals mode) before'
ASSUMPTIONS = [
    "Python's ipaddress parses and normalises the CIDR text (the Lean model re-implements the text forms and is compared on every probe)",
    "IPv4 patterns are of the forms '*', 'a.*', 'a.b.*', 'a.b.c.*', 'a.b.c.d'; any other form is judged by probes only",
]


def v4_cases(rnd, thorough, effort):
    out = []
    for p in range(33):
        bases = {0, (0xFFFFFFFF >> (32 - p) << (32 - p)) if p else 0}
        for _ in range((3 if not thorough else 12) * effort):
            b = rnd.getrandbits(32)
            bases.add(b >> (32 - p) << (32 - p) if p else 0)
        bases.add((10 << 24 | 99 << 16 | 100 << 8 | 200) >> (32 - p) << (32 - p) if p else 0)
        for b in sorted(bases):
            out.append({"kind": "v4", "base": b, "p": p})
    return out


def v6_cases(rnd, thorough, effort):
    out = []
    ps = range(129) if (thorough or effort > 1) else [0, 1, 3, 4, 7, 8, 12, 15, 16, 17, 31, 32, 33, 47, 48, 56, 60, 63, 64, 65, 96, 100, 111, 112, 113, 119, 120, 124, 125, 127, 128]
    for p in ps:
        bases = set()
        fixed = [0x20010db8 << 96, 0x2001 << 112 | 1 << 64, 0xfe80 << 112, 0, 0xffffffffffffffffffffffffffffffff,
                 0x2001 << 112 | 0xdb8 << 96 | 0x1 << 80 | 0x2 << 64 | 0x3 << 48 | 0x4 << 32 | 0x5 << 16 | 0x6,
                 0x1 << 112 | 0x1 << 16, 0x2001 << 112 | 0x1 << 48]
        for f in fixed:
            bases.add(f >> (128 - p) << (128 - p) if p else 0)
        for _ in range((1 if not thorough else 4) * effort):
            b = rnd.getrandbits(128)
            # zero out random hextets so that compression kicks in
            for i in range(8):
                if rnd.random() < 0.4:
                    b &= ~(0xFFFF << (16 * i))
            bases.add(b >> (128 - p) << (128 - p) if p else 0)
        for b in sorted(bases):
            out.append({"kind": "v6", "base": b, "p": p})
    return out


INVALID = ["10.0.0.1/8", "10.0.0.0/33", "256.0.0.0/8", "10.0.0/8", "10.0.0.0.0/8", "10.0.0.0/-1", "10.0.0.0/x", "", "/8",
           "abc", "10.0.0.0/8/8", "2001:db8:::/32", "2001:db8::/129", "2001:db8::1/32", "12345::/16", "g::/8", "1.2.3.4/24",
           "::ffff:1.2.3.4/96x", "1:2:3:4:5:6:7:8:9/128",
           # a valid network with characters around / inside it that are not part of the notation
           " 10.0.0.0/8", "10.0.0.0/8 ", "10.0.0.0/8\n", "\t10.0.0.0/8", "\u00a010.0.0.0/8", "10.0.0.0 /8", "10.0.0.0/ 8", "10.0.0.0/8\r\n",
           " 2001:db8::/32", "2001:db8::/32\n", "10.0.0.0/8,", "[2001:db8::]/32", "10.0.0.0/08x", "+10.0.0.0/8", "10.0.0.0/+8", "１０.0.0.0/8"]


def gen_cases(tier, seed, gen, effort):
    rnd = random.Random(seed * 65537 + 18)
    thorough = tier == "thorough"
    cases = v4_cases(rnd, thorough, effort) + v6_cases(rnd, thorough, effort)
    for c in cases:
        w = 32 if c["kind"] == "v4" else 128
        c["addrs"] = [str(a) for a in probes(rnd, w, c["base"], c["p"], thorough)]
    # every entry point rejects them: the value class itself and a rule that names the value under the cidr modifier
    cases += [{"kind": "invalid", "text": t, "via": via} for t in INVALID for via in ("ctor", "rule", "list")]
    # the patterns as they stand in a query: a backend without native CIDR support OR-links them; inside AND / NOT the group must
    # stay one operand (read back by the target grammar and compared with the rule's meaning: the C01 machinery)
    base_cfg = {"prec": ["not", "and", "or"], "parenthesize": False, "orAsIn": False, "andAsIn": False, "inAllowWild": False, "notAsNotEq": False,
                "sw": True, "ew": True, "ct": True, "wm": False, "swSpecial": False, "ewSpecial": False, "ctSpecial": False,
                "cased": "all", "explicitNotExists": False, "nativeCidr": False}
    nets = ["10.0.0.0/9", "192.168.0.0/23", "172.16.0.0/14", "10.1.2.0/30", "10.0.0.0/8"] + \
           [text_of("v4", (rnd.getrandbits(32) >> (32 - p)) << (32 - p), p) for p in rnd.sample([5, 6, 7, 13, 15, 22, 23, 29, 31], 3 if not thorough else 9)]
    for net in nets:
        for or_in in (False, True):
            for wild in (False, True):
                for prec in (["not", "and", "or"], ["or", "and", "not"], ["and", "or", "not"]):
                    cfg = dict(base_cfg, orAsIn=or_in, inAllowWild=wild, prec=prec)
                    for cond in ("sel", "not sel", "sel and not flt", "flt or sel"):
                        cases.append({"kind": "query", "dets": {"sel": {"f|cidr": net, "g": 1}, "flt": {"h|cidr": "10.2.0.0/15"}}, "cond": cond, "cfg": cfg})
    return cases, True


def probes(rnd, w, base, p, thorough):
    host = w - p
    size = 1 << host
    last = base + size - 1
    full = (1 << w) - 1
    ps = {base, last, base + size // 2, base + (size // 2 - 1 if size > 1 else 0)}
    if base > 0: ps.add(base - 1)
    if last < full: ps.add(last + 1)
    ps |= {0, full}
    step = 8 if w == 32 else 16
    # single bits / single units in every group of the host part, and combinations (zero runs move)
    for g in range(0, host, step):
        ps.add(base + (1 << g))
        ps.add(base + ((1 << min(step, host - g)) - 1 << g))
    if w == 128 and host > 0:
        ones = sum(1 << g for g in range(0, host, 16))
        ps.add(base + (ones & (size - 1)))
        for g in range(0, host, 16):
            ps.add(base + ((ones & ~(1 << g)) & (size - 1)))
        for g in range(0, host, 4):
            ps.add(base + (1 << g))
    for _ in range(6 if not thorough else 24):
        ps.add(base + rnd.randrange(size))
        ps.add(rnd.getrandbits(w))
        # near misses: flip one prefix bit
        if p:
            ps.add((base ^ (1 << (w - 1 - rnd.randrange(p)))) + rnd.randrange(size))
    return sorted(a for a in ps if 0 <= a <= full)


def text_of(kind, base, p):
    import ipaddress
    if kind == "v4":
        return f"{ipaddress.IPv4Address(base)}/{p}"
    return f"{ipaddress.IPv6Address(base)}/{p}"


def run_impl(case):
    if case["kind"] == "query":
        return c01.run_impl(case)
    from sigma.types import SigmaCIDRExpression
    from sigma.collection import SigmaCollection
    from sigma.backends.test import TextQueryTestBackend
    if case["kind"] == "invalid":
        try:
            if case.get("via", "ctor") == "ctor":
                SigmaCIDRExpression(case["text"])
            else:
                val = case["text"] if case["via"] == "rule" else ["10.1.0.0/16", case["text"]]
                qs = TextQueryTestBackend().convert(SigmaCollection.from_dicts([{"title": "t", "logsource": {"category": "c"},
                                                                                 "detection": {"sel": {"f|cidr": val}, "condition": "sel"}}]))
                return {"outcome": "ok", "queries": [str(q) for q in qs]}
            return {"outcome": "ok"}
        except Exception as e:
            return {"outcome": outcome_of_exception(e)}
    text = text_of(case["kind"], case["base"], case["p"])
    try:
        pats = SigmaCIDRExpression(text).expand()

        class B(TextQueryTestBackend):
            cidr_expression = "{field}|{value}|{network}|{prefixlen}|{netmask}"
            # the target also has negated forms: a negated item is rendered through them (not-equals mode)
            convert_not_as_not_eq = True
            not_cidr_expression = "NOT:{field}|{value}|{network}|{prefixlen}|{netmask}"
            not_eq_expression = "{field}!={value}"
        rule = SigmaCollection.from_dicts([{"title": "t", "logsource": {"category": "c"},
                                            "detection": {"sel": {"f|cidr": text}, "condition": "sel"}}])
        b0 = B()
        if case["base"] % 2 == 0 or case["p"] % 3 == 0:
            # history: the same backend class rendered negated items (CIDR and others) before; positive values come out as always
            try:
                b0.convert(SigmaCollection.from_dicts([{"title": "p", "logsource": {"category": "c"},
                                                       "detection": {"sel": {"g|cidr": "172.16.0.0/12", "h": "v"}, "condition": "not sel"}}]))
            except Exception:
                pass
        native = b0.convert(rule)
        # the same network in other valid spellings: the native expression must receive the normalised values all the same
        import ipaddress
        net = ipaddress.ip_network(text)
        spell = [f"{net.network_address}/{net.netmask}"] if case["kind"] == "v4" else [net.exploded.upper(), net.exploded]
        if case["p"] == (32 if case["kind"] == "v4" else 128):
            spell.append(str(net.network_address))
        alt = {}
        for sp in spell:
            r2 = SigmaCollection.from_dicts([{"title": "t", "logsource": {"category": "c"}, "detection": {"sel": {"f|cidr": sp}, "condition": "sel"}}])
            alt[sp] = B().convert(r2)
        return {"outcome": "ok", "text": text, "patterns": pats, "native": native, "alt": alt}
    except Exception as e:
        return {"outcome": outcome_of_exception(e), "text": text, "msg": str(e)[:100]}


def make_request(case, impl, gen):
    if case["kind"] == "query":
        return c01.make_sem_request(case, impl, gen)
    if case["kind"] == "invalid" or impl["outcome"] != "ok":
        return {"op": "ping"}
    w = 32 if case["kind"] == "v4" else 128
    mask = ((1 << w) - 1) >> (w - case["p"]) << (w - case["p"]) if case["p"] else 0
    return {"op": "cidr.case", "base": str(case["base"]), "p": case["p"], "v6": case["kind"] == "v6",
            "impl": [cps(x) for x in impl["patterns"]], "addrs": case["addrs"] + [str(mask)]}


def v4_range(pat):
    """integer range matched by an IPv4 pattern of the standard forms, else None"""
    if pat == "*":
        return (0, 1 << 32)
    parts = pat.split(".")
    wild = parts[-1] == "*"
    octs = parts[:-1] if wild else parts
    if (wild and not 1 <= len(octs) <= 3) or (not wild and len(octs) != 4):
        return None
    vals = []
    for o in octs:
        if not o.isdigit() or str(int(o)) != o or int(o) > 255:
            return None
        vals.append(int(o))
    lo = 0
    for v in vals:
        lo = lo << 8 | v
    sh = 8 * (4 - len(vals))
    return (lo << sh, (lo + 1) << sh)


def judge(case, impl, reply):
    io = impl["outcome"]
    if case["kind"] == "query":
        v = c01.judge_sem(case, impl, reply)
        v.key = ("query", case["dets"], case["cond"], case["cfg"]["orAsIn"], case["cfg"]["inAllowWild"], tuple(case["cfg"]["prec"]))
        v.tags = ("kind:query",) + tuple(t for t in v.tags if t.startswith(("impl:", "unjudged")))
        return v
    if case["kind"] == "invalid":
        via = case.get("via", "ctor")
        key = ("invalid", case["text"], via)
        if io.startswith("sigma:"):
            return Verdict("ok", "", True, key, tags=("kind:invalid", f"via:{via}"))
        how = {"ctor": "given to SigmaCIDRExpression", "rule": "as the value of 'f|cidr' in a rule", "list": "as one value of a list under 'f|cidr' in a rule"}[via]
        return Verdict("violation", f"invalid CIDR {case['text']!r} {how}: outcome {io}{' -> ' + repr(impl.get('queries')) if impl.get('queries') else ''} instead of a Sigma error",
                       True, key, tags=("kind:invalid", f"via:{via}"))
    p, base = case["p"], case["base"]
    w = 32 if case["kind"] == "v4" else 128
    key = (case["kind"], base, p)
    step = 8 if w == 32 else 4
    nt = p % step != 0 or any((base >> (16 * i)) & 0xFFFF == 0 for i in range(8)) if w == 128 else p % 8 != 0
    tags = (f"kind:{case['kind']}", f"p%{step}:{p % step}", f"impl:{io.split(':')[0]}")
    if io != "ok":
        return Verdict("violation", f"{impl['text']}: valid network rejected/crashed: {io} {impl.get('msg')}", nt, key, tags=tags)
    rows = reply["rows"]
    mask_text = uncps(rows[-1]["text"])
    rows = rows[:-1]
    # native rendering: field|value|network|prefixlen|netmask, all from the normalised network
    base_text = impl["text"].split("/")[0]
    want_native = [f"f|{impl['text']}|{base_text}|{p}|{mask_text}"]
    if impl["native"] != want_native:
        return Verdict("violation", f"native CIDR rendering {impl['native']} != {want_native}", nt, key, tags=tags)
    for sp, got in impl.get("alt", {}).items():
        if got != want_native:
            return Verdict("violation", f"native CIDR rendering of the spelling {sp!r} of {impl['text']} is {got}, expected the normalised {want_native}", nt, key, tags=tags)
    pats = impl["patterns"]
    model = [uncps(x) for x in reply["model"]]
    if w == 32:
        rngs = [v4_range(x) for x in pats]
        if all(r is not None for r in rngs):
            lo, hi = base, base + (1 << (32 - p))
            srt = sorted(rngs)
            # pairwise disjoint + union == [lo, hi)
            cur = lo
            for a, b in srt:
                if a < cur:
                    return Verdict("violation", f"{impl['text']}: patterns overlap / are redundant near {a}: {pats[:6]}", nt, key, tags=tags)
                if a > cur:
                    return Verdict("violation", f"{impl['text']}: address {cur} (integer) of the network is matched by no pattern", nt, key, tags=tags)
                cur = b
            if cur != hi or (srt and srt[0][0] != lo):
                what = "misses addresses at the end of" if cur < hi else "matches addresses outside"
                return Verdict("violation", f"{impl['text']}: pattern set {what} the network (covers up to {cur}, network ends at {hi})", nt, key, tags=tags)
        for a, row in zip(case["addrs"], rows):
            hits = row["hits"]
            if row["in"] != (len(hits) > 0):
                return Verdict("violation", f"{impl['text']}: address {uncps(row['text'])} in-network={row['in']} but matched by {len(hits)} patterns", nt, key, tags=tags)
            if len(hits) > 1:
                return Verdict("violation", f"{impl['text']}: address {uncps(row['text'])} matched by {len(hits)} patterns (redundant)", nt, key, tags=tags)
    else:
        for a, row in zip(case["addrs"], rows):
            if row["in"] and not row["hits"]:
                fid = "D14" if (pats == model and not row["model"]) else None
                return Verdict("violation", f"{impl['text']}: address {uncps(row['text'])} is in the network but matched by none of {pats[:4]}…",
                               nt, key, finding=fid, tags=tags + ("v6-miss",))
    if pats != model:
        return Verdict("drift", f"{impl['text']}: model patterns {model[:4]} != impl {pats[:4]}", nt, key, tags=tags)
    return Verdict("ok", "", nt, key, tags=tags)
