"""C16 — a pipeline file cannot grant itself code execution, file or network access.

Pipeline documents (dict, YAML text, YAML file on disk resolved by `ProcessingPipelineResolver`) are generated with
the three opt-in keys (allow_external_sources, allow_template_vars, vars_allowed_paths) injected with truthy values
into every dict of the document — pipeline top level, transformation, post-processing item, finalizer, nested
pipelines / post-processing / finalizers down to depth 3 (a few deeper) — around every external-source item type
(command, file, URL placeholder sources) and every template item type (post-processing, finalizer) that names a
`vars` file; x caller opt-ins on/off x environment variables unset/"0"/"1"/"true"/"TRUE"/"yes" x vars files
inside / in a subdirectory of / outside / symlinked out of / prefix-sharing with / `..`-escaping the allowed
directory.

Every case runs in a forked child (audit hooks cannot be removed) inside a per-case temporary directory created
with `tempfile` and removed afterwards.  Observed on the real code:
 (a) the capability values stored on every instantiated object (object graph walk), compared with the Lean model
     (`caps.case` of Model/Caps.lean run with the configuration regenerated from the source);
 (b) the effects of loading the document AND converting a rule whose placeholders need every external-source item:
     `sys.addaudithook` events (subprocess.Popen / os.system / os.posix_spawn / os.exec*, `open` of the canary data
     file, socket.connect / socket.getaddrinfo / http.client.connect / urllib.Request, `exec` / `compile` of a vars
     file) plus canary side effects (commands and vars files write marker files).
Deciding (independently of the model): an effect of a capability that neither the caller's argument nor the
environment variable enabled is a VIOLATION; so is a stored capability value that is truthy although the caller
did not pass it, and the execution of a vars file outside the base directories in force (given or derived from the
file's location).  Differences between model and code that do not show this are reported as drift."""
from __future__ import annotations
import copy, json, os, random, shutil, sys, tempfile
from .common import Verdict, outcome_of_exception

ID = "C16"
GEN = ["Caps"]
RULE = ("15 document shapes (external sources command/file/URL at top level and nested to depth 1..3 and 5; template "
        "post-processing / finalizers with a vars file at top level and in nested finalizers of depth 1..3 and 5; nested "
        "post-processing; mixed) x injection of each opt-in key (and all three) with truthy values of several YAML types into "
        "every dict of the document incl. the top level x caller opt-ins x environment values {unset,0,1,true,TRUE,yes} x "
        "load mode {from_dict, from_yaml, from_yaml+source_path, resolver file} x 9 vars-path kinds x base source {none, "
        "caller, derived}; plus seeded random document trees; distinct = distinct (document, caller, environment, mode); "
        "non-trivial = the document contains at least one external-source or vars-using item"
        "; caller allow-lists incl. the empty one")
RULE += '; round 4: vars file in a directory differing from the allowed one in letter case only'
ASSUMPTIONS = [
    "effects are observed through CPython audit events and marker files; an effect that raises no audit event and leaves no marker is invisible",
    "the sandbox has no network: URL sources are observed as connection attempts to a closed loopback port and always fail",
    "values of non-capability keys are valid for their class (constructor validation of other parameters is C07's subject)",
    "environment values are judged as coded: enabled iff value.lower() in ('1','true'); the property names 'the documented environment variables'",
    "YAML parsing itself (safe_load) is trusted; documents are YAML-representable",
]

OPTIN = ("allow_template_vars", "vars_allowed_paths", "allow_external_sources")
ENVV, ENVE = "PYSIGMA_ALLOW_VARS_EXECUTION", "PYSIGMA_ALLOW_EXTERNAL_SOURCES"
ENV_VALUES = [None, "0", "1", "true", "TRUE", "yes"]
T = "$T"

# vars files of the fixture: name -> path as written in documents
VARS = {
    "inside": f"{T}/base/dir/vars_in.py",
    "sub": f"{T}/base/dir/sub/vars_sub.py",
    "outside": f"{T}/out/vars_out.py",
    "symlink_out": f"{T}/base/dir/link.py",            # -> $T/out/vars_out.py
    "symlinkdir_out": f"{T}/base/dir/linkdir/vars_out.py",   # linkdir -> $T/out
    "prefix": f"{T}/base/dirX/vars_px.py",
    "othercase": f"{T}/base/DIR/vars_case.py",          # a directory differing from the allowed one in letter case only (case-sensitive file system)
    "dotdot": f"{T}/base/dir/../vars_up.py",
    "link_in": f"{T}/out/link_in.py",                   # -> $T/base/dir/vars_in.py (inside after resolution)
    "basefile": f"{T}/base/dir",                        # the base itself (a directory: cannot be executed)
}
REAL_VARS_FILES = ["base/dir/vars_in.py", "base/dir/sub/vars_sub.py", "out/vars_out.py", "base/dirX/vars_px.py", "base/vars_up.py", "base/DIR/vars_case.py"]
BASE = f"{T}/base/dir"
PIPEFILE = f"{T}/base/dir/pipeline.yml"
DATA = f"{T}/data/vals.txt"


# ------------------------------------------------------------------------------------------- documents
def ext(kind):
    if kind == "file":
        return {"type": "file_placeholders", "path": DATA}
    if kind == "cmd":
        return {"type": "command_placeholders", "cmd": "CMD"}       # command text is filled in by number()
    return {"type": "http_placeholders", "url": "URL", "timeout": 1}


def nestT(*items):
    return {"type": "nest", "items": list(items)}


def nestPP(*items):
    return {"type": "nest", "items": list(items)}


def nestF(*fs):
    return {"type": "nested", "finalizers": list(fs)}


def tpp(v):
    return {"type": "template", "template": "{{ query }}", "vars": v}


def tfin(v):
    return {"type": "template", "template": "{{ queries | join(';') }}", "vars": v}


STATE = {"type": "set_state", "key": "k", "val": "v"}
EMBED = {"type": "embed", "prefix": "[", "suffix": "]"}
CONCAT = {"type": "concat", "separator": ";"}


def deep(wrap, leaf, n):
    for _ in range(n):
        leaf = wrap(leaf)
    return leaf


def shapes(v):
    """name -> document; `v` = the vars path used by template items"""
    c = copy.deepcopy
    return {
        "t_file": {"transformations": [ext("file")]},
        "t_cmd": {"transformations": [ext("cmd")]},
        "t_url": {"name": "p", "priority": 10, "transformations": [ext("url")]},
        "t_nest1": {"transformations": [c(STATE), nestT(ext("file"), nestT(ext("cmd")))]},
        "t_nest3": {"transformations": [deep(nestT, ext("cmd"), 3)]},
        "t_nest5": {"transformations": [deep(nestT, ext("file"), 5)]},
        "pp_tmpl": {"postprocessing": [tpp(v)]},
        "pp_nest_empty": {"postprocessing": [c(EMBED), nestPP()]},
        "pp_nest_tmpl": {"postprocessing": [nestPP(tpp(v))]},
        "f_tmpl": {"finalizers": [tfin(v)]},
        "f_nest1": {"finalizers": [nestF(tfin(v))]},
        "f_nest3": {"finalizers": [c(CONCAT), deep(nestF, tfin(v), 3)]},
        "f_nest5": {"finalizers": [deep(nestF, tfin(v), 5)]},
        "mixed": {"vars": {"x": 1}, "transformations": [ext("file"), nestT(ext("url"))], "postprocessing": [c(EMBED), tpp(v)],
                  "finalizers": [nestF(c(CONCAT), tfin(v))]},
        "plain": {"transformations": [c(STATE)], "postprocessing": [c(EMBED)], "finalizers": [c(CONCAT)]},
    }


SECTIONS = (("transformations", "items"), ("postprocessing", "items"), ("finalizers", "finalizers"))


def child_key(section, d):
    if section == "finalizers":
        return "finalizers" if d.get("type") == "nested" else None
    return "items" if d.get("type") == "nest" else None


def dicts(doc):
    """every dict of the document with its position: () = top level, (section, i, j, …)"""
    yield (), doc
    for section, _ in SECTIONS:
        def walk(pos, d):
            yield pos, d
            ck = child_key(section, d)
            if ck and isinstance(d.get(ck), list):
                for j, ch in enumerate(d[ck]):
                    if isinstance(ch, dict):
                        yield from walk(pos + (j,), ch)
        for i, d in enumerate(doc.get(section) or []):
            if isinstance(d, dict):
                yield from walk((section, i), d)


def at(doc, pos):
    if not pos:
        return doc
    section = pos[0]
    d = doc[section][pos[1]]
    for j in pos[2:]:
        d = d[child_key(section, d)][j]
    return d


def number(doc):
    """give every external-source item its own placeholder / command marker / port; return the placeholder names"""
    phs = []
    def walk(d):
        if d.get("type") == "nest":
            for ch in d.get("items") or []:
                if isinstance(ch, dict):
                    walk(ch)
        elif d.get("type") in ("file_placeholders", "command_placeholders", "http_placeholders"):
            n = len(phs)
            d["include"] = [f"ph{n}"]
            if d["type"] == "command_placeholders":
                d["cmd"] = f"echo m > {T}/markers/cmd{n}; echo v{n}"
            if d["type"] == "http_placeholders":
                d["url"] = f"http://127.0.0.1:{9 + 2 * n}/x{n}"
            phs.append(f"ph{n}")
    for d in doc.get("transformations") or []:
        if isinstance(d, dict):
            walk(d)
    return phs


def scrubbed(doc):
    """the document without the keys the loader is specified to ignore: the three opt-in keys in every
    transformation / post-processing dict, the two template keys in every finalizer dict (top-level keys stay)"""
    d2 = copy.deepcopy(doc)
    for pos, d in dicts(d2):
        if not pos:
            continue
        for k in (OPTIN if pos[0] != "finalizers" else OPTIN[:2]):
            d.pop(k, None)
    return d2


def interesting(doc):
    for pos, d in dicts(doc):
        if pos and (d.get("type") in ("file_placeholders", "command_placeholders", "http_placeholders") or d.get("vars")):
            return True
    return False


# injected values: key -> list of truthy YAML values
INJ = {
    "allow_template_vars": [True, "yes", 1],
    "allow_external_sources": [True, "true", ["x"]],
    "vars_allowed_paths": [["/"], [f"{T}"], None],      # None = "no restriction" if it reached the object
}


def mk(doc, caller=None, env=None, mode="dict", fam=""):
    if mode == "resolve":
        caller = {}          # the resolver has no opt-in arguments
    return {"doc": doc, "caller": caller or {}, "env": env or {}, "mode": mode, "fam": fam}


def gen_cases(tier, seed, gen, effort):
    rnd = random.Random(seed * 7919 + 16)
    thorough = tier == "thorough"
    cases = []
    vin = VARS["inside"]
    S = shapes(vin)
    for d in S.values():
        number(d)
    off_envs = [{}, {ENVV: "0", ENVE: "0"}, {ENVV: "yes", ENVE: "yes"}]
    # A. injection at every position, default caller, environment not enabling anything
    for name, doc in S.items():
        positions = [p for p, _ in dicts(doc)]
        for pos in positions:
            for ks in ([k] for k in OPTIN):
                for vi in range(3 if thorough or effort > 1 else 2):
                    d2 = copy.deepcopy(doc)
                    for k in ks:
                        at(d2, pos)[k] = copy.deepcopy(INJ[k][vi])
                    for ei, env in enumerate(off_envs):
                        if not thorough and effort == 1 and ei == 2 and vi == 1:
                            continue
                        mode = ("dict", "yaml", "resolve")[(len(cases)) % 3] if pos else "dict"
                        cases.append(mk(d2, {}, env, mode, f"A:{name}"))
            d2 = copy.deepcopy(doc)
            for k in OPTIN:
                at(d2, pos)[k] = copy.deepcopy(INJ[k][0])
            for mode in ("dict", "yaml", "yaml_src", "resolve"):
                cases.append(mk(d2, {}, {}, mode, f"A3:{name}"))
            # the injected keys must not change what an opted-in caller gets either (non-interference)
            cases.append(mk(d2, {"atv": True, "aes": True, "vap": [BASE]}, {}, "dict", f"A3c:{name}"))
        # all positions at once
        d2 = copy.deepcopy(doc)
        for pos in positions:
            for k in OPTIN:
                at(d2, pos)[k] = copy.deepcopy(INJ[k][0])
        cases.append(mk(d2, {}, {}, "dict", f"Aall:{name}"))
    # B. caller opt-ins x environment values (no injection): the capabilities come from exactly these
    for name, doc in S.items():
        for atv in (False, True):
            for aes in (False, True):
                for vap in (None, [BASE]):
                    cases.append(mk(doc, {"atv": atv, "aes": aes, "vap": vap}, {}, "dict", f"B:{name}"))
                    cases.append(mk(doc, {"atv": atv, "aes": aes, "vap": vap}, {}, "yaml_src", f"B:{name}"))
        for ev in ENV_VALUES:
            for ee in ENV_VALUES:
                if ev is not None and ee is not None and ev != ee and not thorough:
                    continue
                env = {k: v for k, v in ((ENVV, ev), (ENVE, ee)) if v is not None}
                cases.append(mk(doc, {}, env, "dict", f"Benv:{name}"))
                cases.append(mk(doc, {}, env, "resolve", f"Benv:{name}"))
    # C. where the vars file lies x where the bases come from x who enabled execution
    for kind, vp in VARS.items():
        SV = shapes(vp)
        for name in ("pp_tmpl", "f_tmpl", "f_nest1", "f_nest3"):
            doc = SV[name]
            for bases in ("none", "caller", "caller2", "caller_empty", "derived_yaml", "derived_resolve"):
                for who in ("caller", "env"):
                    caller = {"atv": who == "caller"}
                    env = {ENVV: "1"} if who == "env" else {}
                    mode = "dict"
                    if bases == "caller":
                        caller["vap"] = [BASE]
                    elif bases == "caller_empty":
                        caller["vap"] = []                   # an empty allow-list allows nothing (it is not "no restriction")
                    elif bases == "caller2":
                        caller["vap"] = [f"{T}/nowhere", f"{T}/base/dir/"]     # trailing slash, second entry matches
                    elif bases == "derived_yaml":
                        mode = "yaml_src"
                    elif bases == "derived_resolve":
                        if who == "caller":
                            continue                     # the resolver has no opt-in arguments
                        mode = "resolve"
                    cases.append(mk(doc, caller, env, mode, f"C:{kind}:{bases}"))
                    if bases != "none" and name == "f_nest1":
                        # the document tries to widen the bases
                        d2 = copy.deepcopy(doc)
                        d2["finalizers"][0]["vars_allowed_paths"] = ["/"]
                        d2["finalizers"][0]["finalizers"][0]["vars_allowed_paths"] = None
                        cases.append(mk(d2, caller, env, mode, f"Cinj:{kind}:{bases}"))
    # E. malformed stream: missing / unknown types, missing child lists, unexpected keys — at every level, with
    #    and without injected opt-in keys (errors must not open anything either)
    bad_items = [{"path": DATA}, {"type": "nope"}, {"type": "nest"}, {"type": "file_placeholders", "path": DATA, "foo": 1},
                 {"type": "set_state", "key": "k"}, {"type": "command_placeholders"}]
    bad_pps = [{"template": "x"}, {"type": "nope"}, {"type": "nest"}, {"type": "template", "template": "{{ query }}", "vars": vin, "foo": 1},
               {"type": "template", "vars": vin}]
    bad_fins = [{"template": "x"}, {"type": "nope"}, {"type": "nested"}, {"type": "template", "template": "x", "vars": vin, "foo": 1},
                {"type": "template", "vars": vin}, {"type": "concat", "foo": 1}]
    for wrapn in (0, 1, 2):
        for sect, bads, wrap in (("transformations", bad_items, nestT), ("postprocessing", bad_pps, nestPP), ("finalizers", bad_fins, nestF)):
            for bad in bads:
                for inj in (False, True):
                    b = copy.deepcopy(bad)
                    if inj:
                        for k in OPTIN:
                            b[k] = copy.deepcopy(INJ[k][0])
                    good = {"transformations": ext("cmd"), "postprocessing": tpp(vin), "finalizers": tfin(vin)}[sect]
                    for order in ((b, good), (good, b)):
                        doc = {sect: [deep(wrap, copy.deepcopy(x), wrapn) for x in order]}
                        number(doc)
                        for caller, env in (({}, {}), ({"atv": True, "aes": True}, {}), ({}, {ENVV: "1", ENVE: "true"})):
                            cases.append(mk(doc, caller, env, "dict", "E:malformed"))
    # D. seeded random trees
    for _ in range((150 if not thorough else 3000) * effort):
        cases.append(random_case(rnd))
    return cases, False


def random_case(rnd):
    vp = rnd.choice(list(VARS.values()))

    def rt(depth):
        r = rnd.random()
        if depth > 0 and r < 0.35:
            return nestT(*[rt(depth - 1) for _ in range(rnd.randint(0, 2))])
        if r < 0.75:
            return ext(rnd.choice(["file", "cmd", "url"]))
        return copy.deepcopy(STATE)

    def rp(depth):
        r = rnd.random()
        if depth > 0 and r < 0.2:
            return nestPP(*[rp(depth - 1) for _ in range(rnd.randint(0, 1))])
        return tpp(vp) if r < 0.6 else copy.deepcopy(EMBED)

    def rf(depth):
        r = rnd.random()
        if depth > 0 and r < 0.4:
            return nestF(*[rf(depth - 1) for _ in range(rnd.randint(0, 2))])
        return tfin(vp) if r < 0.75 else copy.deepcopy(CONCAT)
    doc = {}
    if rnd.random() < 0.7:
        doc["transformations"] = [rt(4) for _ in range(rnd.randint(1, 2))]
    if rnd.random() < 0.5:
        doc["postprocessing"] = [rp(2) for _ in range(rnd.randint(1, 2))]
    if rnd.random() < 0.6:
        doc["finalizers"] = [rf(4) for _ in range(rnd.randint(1, 2))]
    number(doc)
    for pos, d in list(dicts(doc)):
        if rnd.random() < 0.4:
            for k in OPTIN:
                if rnd.random() < 0.5:
                    d[k] = copy.deepcopy(rnd.choice(INJ[k]))
    caller = {}
    if rnd.random() < 0.3:
        caller["atv"] = True
    if rnd.random() < 0.3:
        caller["aes"] = True
    if rnd.random() < 0.4:
        caller["vap"] = [BASE]
    env = {}
    for k in (ENVV, ENVE):
        v = rnd.choice(ENV_VALUES + [None, None])
        if v is not None:
            env[k] = v
    return mk(doc, caller, env, rnd.choice(["dict", "yaml", "yaml_src", "resolve"]), "D:random")


# --------------------------------------------------------------------------------------------- fixture
def subst(x, t):
    if isinstance(x, str):
        return x.replace(T, t)
    if isinstance(x, list):
        return [subst(y, t) for y in x]
    if isinstance(x, dict):
        return {k: subst(v, t) for k, v in x.items()}
    return x


def make_fixture(t):
    for d in ("base/dir/sub", "base/dirX", "base/DIR", "out", "data", "markers"):
        os.makedirs(os.path.join(t, d))
    for rel in REAL_VARS_FILES:
        marker = os.path.join(t, "markers", "vars_" + rel.replace("/", "_"))
        with open(os.path.join(t, rel), "w") as f:
            f.write(f"open({marker!r}, 'w').write('x')\nvars = {{'a': 1}}\n")
    os.symlink(os.path.join(t, "out/vars_out.py"), os.path.join(t, "base/dir/link.py"))
    os.symlink(os.path.join(t, "out"), os.path.join(t, "base/dir/linkdir"))
    os.symlink(os.path.join(t, "base/dir/vars_in.py"), os.path.join(t, "out/link_in.py"))
    with open(os.path.join(t, "data/vals.txt"), "w") as f:
        f.write("val1\nval2\n")


def rule_yaml(phs):
    sel = "".join(f"    f{i}|expand: '%{p}%'\n" for i, p in enumerate(phs)) or "    f: v\n"
    return "title: t\nlogsource:\n  category: c\ndetection:\n  sel:\n" + sel + "  condition: sel\n"


def placeholders(doc):
    out = []
    def walk(d):
        if not isinstance(d, dict):
            return
        if d.get("type") == "nest":
            for ch in d.get("items") or []:
                walk(ch)
        elif isinstance(d.get("include"), list):
            out.extend(x for x in d["include"] if isinstance(x, str))
    for d in doc.get("transformations") or []:
        walk(d)
    return out


def walk_objects(pl):
    """the capability values stored on every instantiated object, depth first per section"""
    ABSENT = "<absent>"

    def bits(o):
        def g(k):
            v = getattr(o, k, ABSENT)
            if isinstance(v, tuple):
                v = list(v)
            return v
        return {"cls": type(o).__name__, "atv": g("allow_template_vars"), "vap": g("vars_allowed_paths"), "aes": g("allow_external_sources")}

    def items(pl_, attr):
        out = []
        for it in getattr(pl_, attr):
            tr = it.transformation
            out.append(bits(tr))
            np = getattr(tr, "_nested_pipeline", None)
            if np is not None:
                out.extend(items(np, attr))
        return out

    def fins(fs):
        out = []
        for f in fs:
            out.append(bits(f))
            if hasattr(f, "finalizers"):
                out.extend(fins(f.finalizers))
        return out
    return {"items": items(pl, "items"), "pps": items(pl, "postprocessing_items"), "fins": fins(pl.finalizers)}


def child_main(case, t):
    """runs in the forked child: returns the observation dict"""
    import yaml
    from sigma.processing.pipeline import ProcessingPipeline
    from sigma.processing.resolver import ProcessingPipelineResolver
    from sigma.collection import SigmaCollection
    from sigma.backends.test import TextQueryTestBackend
    doc = subst(case["doc"], t)
    caller = subst(case["caller"], t)
    for k in (ENVV, ENVE, "HTTP_PROXY", "HTTPS_PROXY", "http_proxy", "https_proxy", "ALL_PROXY", "all_proxy"):
        os.environ.pop(k, None)
    for k, v in case["env"].items():
        os.environ[k] = v
    canary_vars = {os.path.realpath(os.path.join(t, rel)) for rel in REAL_VARS_FILES}
    canary_data = os.path.realpath(os.path.join(t, "data/vals.txt"))
    raw, busy = [], [False]

    def hook(event, args):
        if busy[0]:
            return
        busy[0] = True
        try:
            if event == "subprocess.Popen":
                a = args[1]
                raw.append(["cmd", a[-1] if isinstance(a, (list, tuple)) and len(a) == 3 and a[1] == "-c" else (a if isinstance(a, str) else " ".join(map(str, a)))])
            elif event == "os.system":
                raw.append(["cmd", os.fsdecode(args[0])])
            elif event in ("os.posix_spawn", "os.exec"):
                argv = [os.fsdecode(x) for x in args[1]]
                raw.append(["cmd", argv[-1] if len(argv) == 3 and argv[1] == "-c" else " ".join(argv)])
            elif event == "os.fork" or event == "os.forkpty":
                raw.append(["fork", ""])
            elif event == "open":
                p = args[0]
                if isinstance(p, (str, bytes)):
                    rp = os.path.realpath(os.fsdecode(p))
                    if rp == canary_data:
                        raw.append(["read", rp])
                    elif rp in canary_vars:
                        raw.append(["openvars", rp])
            elif event == "exec":
                fn = getattr(args[0], "co_filename", None)
                if isinstance(fn, str) and os.path.realpath(fn) in canary_vars:
                    raw.append(["exec", os.path.realpath(fn)])
            elif event == "compile":
                fn = args[1]
                if isinstance(fn, (str, bytes)) and os.path.realpath(os.fsdecode(fn)) in canary_vars:
                    raw.append(["compilevars", os.path.realpath(os.fsdecode(fn))])
            elif event == "socket.connect":
                raw.append(["net", f"connect:{args[1]!r}"])
            elif event == "socket.getaddrinfo":
                raw.append(["net", f"getaddrinfo:{args[0]!r}:{args[1]!r}"])
            elif event == "http.client.connect":
                raw.append(["net", f"http:{args[1]!r}:{args[2]!r}"])
            elif event == "urllib.Request":
                raw.append(["net", f"urllib:{args[0]!r}"])
        except Exception as e:      # never let the observer change the behaviour
            raw.append(["hook-error", f"{event}:{type(e).__name__}"])
        finally:
            busy[0] = False

    out = {}
    kw = {}
    if caller.get("atv"):
        kw["allow_template_vars"] = True
    if caller.get("aes"):
        kw["allow_external_sources"] = True
    if caller.get("vap") is not None:
        kw["vars_allowed_paths"] = tuple(caller["vap"])
    mode = case["mode"]
    pipefile = PIPEFILE.replace(T, t)
    text = yaml.safe_dump(doc, sort_keys=False) if mode != "dict" else None
    if mode == "resolve":
        with open(pipefile, "w") as f:
            f.write(text)
    sys.addaudithook(hook)
    pl = None
    try:
        if mode == "dict":
            pl = ProcessingPipeline.from_dict(copy.deepcopy(doc), **kw)
        elif mode == "yaml":
            pl = ProcessingPipeline.from_yaml(text, **kw)
        elif mode == "yaml_src":
            pl = ProcessingPipeline.from_yaml(text, source_path=pipefile, **kw)
        else:
            pl = ProcessingPipelineResolver().resolve_pipeline(pipefile)
        out["load"] = "ok"
    except Exception as e:
        out["load"] = outcome_of_exception(e)
        out["load_msg"] = str(e)[:200]
    out["n_load"] = len(raw)
    if pl is not None:
        busy[0] = True
        try:
            out["objs"] = walk_objects(pl)
        finally:
            busy[0] = False
        try:
            rules = SigmaCollection.from_yaml(rule_yaml(placeholders(doc)))
            res = TextQueryTestBackend(pl).convert(rules)
            out["convert"] = "ok"
            out["result"] = repr(res)[:200]
        except Exception as e:
            out["convert"] = outcome_of_exception(e)
            out["convert_msg"] = str(e)[:200]
    busy[0] = True          # stop observing
    out["raw"] = raw
    return out


def run_impl(case):
    out = run_one(case)
    twin = scrubbed(case["doc"])
    if twin != case["doc"] and not out["load"].startswith("harness:"):
        t = run_one(dict(case, doc=twin))
        out["twin"] = {k: t.get(k) for k in ("load", "convert", "raw", "markers", "objs")}
    return out


def run_one(case):
    import sigma.backends.test, sigma.processing.resolver, jinja2, yaml      # noqa: F401  (imported before forking)
    try:
        import requests      # noqa: F401
    except Exception:
        pass
    t = os.path.realpath(tempfile.mkdtemp(prefix="c16_"))
    try:
        make_fixture(t)
        r, w = os.pipe()
        pid = os.fork()
        if pid == 0:
            code = 0
            try:
                os.close(r)
                try:
                    out = child_main(case, t)
                except BaseException as e:
                    out = {"load": "harness:" + type(e).__name__, "load_msg": str(e)[:300], "raw": []}
                data = json.dumps(out, default=str).encode()
                with os.fdopen(w, "wb") as f:
                    f.write(data)
            except BaseException:
                code = 3
            finally:
                os._exit(code)
        os.close(w)
        with os.fdopen(r, "rb") as f:
            data = f.read()
        os.waitpid(pid, 0)
        out = json.loads(data.decode()) if data else {"load": "harness:nodata", "raw": []}
        out["markers"] = sorted(os.listdir(os.path.join(t, "markers")))
        # operating-system facts the model needs: realpath / dirname of every path of the case
        paths = set()
        def coll(x):
            if isinstance(x, str) and x.startswith(T):
                paths.add(x)
            elif isinstance(x, list):
                [coll(y) for y in x]
            elif isinstance(x, dict):
                [coll(y) for y in x.values()]
        coll(case["doc"]); coll(case["caller"]); paths.add(PIPEFILE)
        sym = lambda p: p.replace(t, T)
        out["realpath"] = sorted([p, sym(os.path.realpath(p.replace(T, t)))] for p in paths)
        out["dirname"] = [[sym(os.path.realpath(PIPEFILE.replace(T, t))), sym(os.path.dirname(os.path.realpath(PIPEFILE.replace(T, t))))]]
        out["raw"] = [[k, sym(a)] for k, a in out.get("raw", [])]
        for k in ("load_msg", "convert_msg", "result"):
            if k in out:
                out[k] = sym(out[k])
        if "objs" in out:
            out["objs"] = json.loads(sym(json.dumps(out["objs"])))
        out["outcome"] = out["load"]
        return out
    finally:
        shutil.rmtree(t, ignore_errors=True)


# ------------------------------------------------------------------------------------- model request
def val_json(v):
    if v is None:
        return None
    if isinstance(v, bool):
        return {"b": v}
    if isinstance(v, str):
        return {"s": v}
    if isinstance(v, (list, tuple)) and all(isinstance(x, str) for x in v):
        return {"l": list(v)}
    return {"o": bool(v)}


def node_json(section, d):
    if not isinstance(d, dict):
        return {"ty": None, "kv": [], "hasCh": False, "ch": []}
    ck = "finalizers" if section == "finalizers" else "items"
    is_nest = d.get("type") == ("nested" if section == "finalizers" else "nest")
    kv = [[k, val_json(v)] for k, v in d.items() if k != "type" and not (is_nest and k == ck)]
    ch = d.get(ck) if is_nest and isinstance(d.get(ck), list) else []
    ty = d.get("type")
    return {"ty": ty if isinstance(ty, str) else None, "kv": kv, "hasCh": bool(is_nest and ck in d),
            "ch": [node_json(section, c) for c in ch]}


def used_types(doc, section):
    out = set()
    for pos, d in dicts(doc):
        if pos and pos[0] == section and isinstance(d.get("type"), str):
            out.add(d["type"])
    return out


def make_request(case, impl, gen):
    g = gen.get("Caps")
    if not g:
        return None
    doc = case["doc"]
    cfg = dict(g)
    for reg, section in (("regT", "transformations"), ("regPP", "postprocessing"), ("regF", "finalizers")):
        used = used_types(doc, section)
        cfg[reg] = [r for r in g[reg] if r["name"] in used]
    mode = case["mode"]
    caller = {"atv": bool(case["caller"].get("atv")), "aes": bool(case["caller"].get("aes")), "vap": case["caller"].get("vap"),
              "sourcePath": PIPEFILE if mode in ("yaml_src", "resolve") else None}
    urls = []
    for _, d in dicts(doc):
        if isinstance(d.get("url"), str):
            urls.append(d["url"])
    world = {"envVars": case["env"].get(ENVV), "envExt": case["env"].get(ENVE), "realpath": impl.get("realpath", []),
             "dirname": impl.get("dirname", []), "fails": urls + [BASE]}
    return {"op": "caps.case", "cfg": cfg, "world": world, "caller": caller,
            "mode": {"dict": "dict", "yaml": "yaml", "yaml_src": "yaml", "resolve": "resolve"}[mode],
            "doc": {"keys": [k for k in doc.keys()], "ts": [node_json("transformations", d) for d in doc.get("transformations") or []],
                    "pps": [node_json("postprocessing", d) for d in doc.get("postprocessing") or []],
                    "fs": [node_json("finalizers", d) for d in doc.get("finalizers") or []]}}


# ------------------------------------------------------------------------------------------- judging
ERRMAP = {"config": "sigma:SigmaConfigurationError", "security": "sigma:SigmaSecurityError", "value": "sigma:SigmaValueError", "ok": "ok"}


def env_on(v):
    return v is not None and v.lower() in ("1", "true")


def canonical_events(case, impl):
    """audit records -> the model's event alphabet, in order, duplicates of one effect collapsed"""
    port_url = {}
    for _, d in dicts(case["doc"]):
        u = d.get("url")
        if isinstance(u, str) and u.startswith("http://127.0.0.1:"):
            port_url[u.split(":")[2].split("/")[0]] = u
    out = []
    for k, a in impl.get("raw", []):
        ev = None
        if k in ("cmd", "read", "exec"):
            ev = [k, a]
        elif k == "net":
            import re
            nums = re.findall(r"\d+", a.replace("127.0.0.1", ""))
            url = port_url.get(nums[-1]) if nums else None
            ev = ["fetch", url or a]
        elif k == "fork":
            continue
        elif k in ("openvars", "compilevars"):
            continue
        else:
            ev = [k, a]
        if out and out[-1] == ev and ev[0] in ("fetch", "cmd"):
            continue                # one effect raises several audit events (getaddrinfo + connect, Popen + spawn)
        out.append(ev)
    # canaries: a marker without the corresponding audit event
    seen = {(k, a) for k, a in out}
    for m in impl.get("markers", []):
        if m.startswith("cmd"):
            if not any(k == "cmd" and f"markers/{m};" in a for k, a in out):
                out.append(["cmd", f"<marker {m} without audit event>"])
        elif m.startswith("vars_"):
            if not any(k == "exec" and a.replace("/", "_").endswith(m[len("vars_"):]) for k, a in out):
                out.append(["exec", f"<marker {m} without audit event>"])
    return out


def inside(p, base_real):
    if p == base_real:
        return True
    b = base_real.rstrip("/")
    return p.startswith(b + "/") and ".." not in p.split("/")


def truthy_bit(v):
    return v not in ("<absent>", None, False, 0, "", [], {})


def judge(case, impl, reply):
    doc, caller, env, mode = case["doc"], case["caller"], case["env"], case["mode"]
    key = (json.dumps(doc, sort_keys=True, default=str), json.dumps(caller, sort_keys=True), json.dumps(env, sort_keys=True), mode)
    nt = interesting(doc)
    tags = [f"fam:{case['fam'].split(':')[0]}", f"mode:{mode}", f"load:{impl['load'].split(':')[0]}"]
    if impl["load"].startswith("harness:"):
        return Verdict("drift", f"harness could not run the case: {impl['load']} {impl.get('load_msg')}", nt, key, tags=tuple(tags))
    evs = canonical_events(case, impl)
    c_atv, c_aes = bool(caller.get("atv")), bool(caller.get("aes"))
    vars_on = c_atv or env_on(env.get(ENVV))
    ext_on = c_aes or env_on(env.get(ENVE))
    tags.append(f"vars:{'on' if vars_on else 'off'}"); tags.append(f"ext:{'on' if ext_on else 'off'}")
    tags.append("events:" + ("none" if not evs else "some"))
    short = json.dumps(doc, default=str)[:400]
    who = f"caller={json.dumps(caller)} env={json.dumps(env)} mode={mode}"
    # (1) effects nobody enabled
    for k, a in evs:
        if k == "exec" and not vars_on:
            return Verdict("violation", f"a Python vars file was executed ({a}) although neither allow_template_vars was passed nor {ENVV} enables it: {who} :: {short}", nt, key, tags=tuple(tags))
        if k in ("cmd", "read", "fetch") and not ext_on:
            what = {"cmd": "a command was run", "read": "a placeholder source file was read", "fetch": "a network request was attempted"}[k]
            return Verdict("violation", f"{what} ({a}) although neither allow_external_sources was passed nor {ENVE} enables it: {who} :: {short}", nt, key, tags=tuple(tags))
        if k == "hook-error":
            return Verdict("drift", f"audit hook failed: {a}", nt, key, tags=tuple(tags))
    # (2) stored capability values nobody passed
    for sect, objs in (impl.get("objs") or {}).items():
        for i, o in enumerate(objs):
            if truthy_bit(o["atv"]) and not c_atv:
                return Verdict("violation", f"{o['cls']} (#{i} of {sect}) stores allow_template_vars={o['atv']!r} although the caller did not pass it (capability not granted by the caller): {who} :: {short}", nt, key, tags=tuple(tags))
            if truthy_bit(o["aes"]) and not c_aes:
                return Verdict("violation", f"{o['cls']} (#{i} of {sect}) stores allow_external_sources={o['aes']!r} although the caller did not pass it (capability not granted by the caller): {who} :: {short}", nt, key, tags=tuple(tags))
    # (3) bases in force: nothing outside them is executed
    rp = dict(map(tuple, impl.get("realpath", [])))
    bases = None
    if caller.get("vap") is not None:
        bases = [rp.get(b, b) for b in caller["vap"]]
    elif mode in ("yaml_src", "resolve"):
        bases = [d for _, d in impl.get("dirname", [])]
    if bases is not None:
        tags.append("bases:in-force")
        for k, a in evs:
            if k == "exec" and not a.startswith("<") and not any(inside(a, b) for b in bases):
                return Verdict("violation", f"the vars file {a} was executed although it lies outside the allowed base directories {bases}: {who} :: {short}", nt, key, tags=tuple(tags))
    # (4) the keys the loader is specified to ignore are invisible: same outcome, effects and stored values as
    #     for the document without them (checked on the real code, independently of the model)
    if "twin" in impl:
        tw = impl["twin"]
        tags.append("twin:compared")
        nd = []
        if tw["load"] != impl["load"]:
            nd.append(f"loading gives {impl['load']} with the keys and {tw['load']} without")
        if tw.get("convert") != impl.get("convert"):
            nd.append(f"converting gives {impl.get('convert')} with the keys and {tw.get('convert')} without")
        tevs = canonical_events(dict(case, doc=scrubbed(doc)), tw)
        if tevs != evs:
            nd.append(f"effects {evs} with the keys and {tevs} without")
        if tw.get("objs") != impl.get("objs"):
            nd.append("the stored capability values differ")
        if nd:
            return Verdict("drift", "opt-in keys inside the document are not invisible to the loader (they neither open anything here, "
                           "but the first line of defence - stripping them - is gone): " + "; ".join(nd) + f" :: {who} :: {short}", nt, key, tags=tuple(tags))
    if reply is None:
        return Verdict("ok", "", nt, key, tags=tuple(tags))
    # (5) correspondence with the model
    diffs = []
    m_load = ERRMAP.get(reply["load"], "other")
    i_load = impl["load"]
    if m_load == "other":
        if not i_load.startswith("other:"):
            diffs.append(f"load: model expects a non-Sigma exception, code gives {i_load}")
    elif m_load != i_load:
        diffs.append(f"load: model {m_load}, code {i_load} ({impl.get('load_msg', '')[:100]})")
    m_evs = [list(e) for e in reply.get("events", [])]
    if m_evs != evs:
        diffs.append(f"effects: model {m_evs}, code {evs}")
    if reply["load"] == "ok" and i_load == "ok":
        m_conv = ERRMAP.get(reply["convert"], "other")
        if m_conv != impl.get("convert"):
            diffs.append(f"convert: model {m_conv}, code {impl.get('convert')} ({impl.get('convert_msg', '')[:100]})")
        names = {}
        g = _GEN.get("Caps") or {}
        for reg, sect in (("regT", "items"), ("regPP", "pps"), ("regF", "fins")):
            names[sect] = {r["name"]: r["cls"] for r in g.get(reg, [])}
        for sect in ("items", "pps", "fins"):
            mo, io = reply.get(sect, []), impl["objs"][sect]
            if [names[sect].get(o["ty"]) for o in mo] != [o["cls"] for o in io]:
                diffs.append(f"objects of {sect}: model {[o['ty'] for o in mo]}, code {[o['cls'] for o in io]}")
                continue
            for n, (a, b) in enumerate(zip(mo, io)):
                for k, has in (("atv", "hasAtv"), ("vap", "hasVap"), ("aes", "hasAes")):
                    if b[k] == "<absent>":
                        if a[has]:
                            diffs.append(f"{sect}[{n}].{k}: model passes it, the object has no such attribute")
                        continue
                    mv = a[k]
                    mv = None if mv is None else (mv.get("b") if "b" in mv else mv.get("s") if "s" in mv else mv.get("l") if "l" in mv else ("<truthy>" if mv.get("o") else "<falsy>"))
                    if mv != b[k] and not (mv == "<truthy>" and truthy_bit(b[k])) and not (mv == "<falsy>" and not truthy_bit(b[k])):
                        diffs.append(f"{sect}[{n}].{k} ({b['cls']}): model {mv!r}, code {b[k]!r}")
    if diffs:
        return Verdict("drift", "; ".join(diffs)[:600] + f" :: {who} :: {short}", nt, key, tags=tuple(tags))
    return Verdict("ok", "", nt, key, tags=tuple(tags))


_GEN = {}
_orig_make_request = make_request


def make_request(case, impl, gen):      # noqa: F811  (keeps the generated tables for judge())
    _GEN.update(gen)
    return _orig_make_request(case, impl, gen)
