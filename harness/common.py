"""Shared machinery of the checks: build (translate + lake + audit), driver client, parallel
execution of the real code, verdict aggregation, known findings, replay and evidence files.

Exit codes of ./check: 0 property held on everything explored (KNOWN-FINDING lines allowed),
1 at least one VIOLATION line, 2 infrastructure failure (never reported as a violation)."""
from __future__ import annotations

import fcntl, hashlib, json, os, random, re, subprocess, sys, time, traceback
from dataclasses import dataclass, field
from typing import Any, Callable, Iterable

VERIF = os.path.dirname(os.path.dirname(os.path.abspath(__file__)))
REPO = os.environ.get("VERIF_REPO", "/repo")
LEAN = os.path.join(VERIF, "lean")
WORK = os.path.join(VERIF, ".work")
DRIVER = os.path.join(LEAN, ".lake", "build", "bin", "driver")
PY = "/venv/bin/python"
GUARD = "SIGMAHQ_PYSIGMA_VERIF"
ALLOWED_AXIOMS = {"propext", "Classical.choice", "Quot.sound"}
FORBIDDEN = re.compile(r"\b(sorry|admit|native_decide|bv_decide|implemented_by|unsafe)\b|^\s*axiom\s|maxHeartbeats\s+0\b", re.M)
NPROC = min(16, os.cpu_count() or 1)

TRUSTED_BASE = [
    "Lean 4.33.0 kernel; axioms allowed: propext, Classical.choice, Quot.sound (audited per theorem on every run)",
    "tools/translate.py (source -> Gen/*.lean tables) and the by-decide obligations over them",
    "harness (generators, canonicalisation, JSON line protocol) and Driver/*.lean JSON glue",
    "control flow of the named Python functions is hand-modelled and tied by the correspondence sweep only",
]


class Infra(Exception):
    """Infrastructure failure: exit 2, never a violation."""


def sh(cmd, cwd=None, timeout=3600, env=None, input=None):
    p = subprocess.run(cmd, cwd=cwd, timeout=timeout, env=env, input=input, text=True,
                       stdout=subprocess.PIPE, stderr=subprocess.STDOUT)
    return p.returncode, p.stdout


def cps(s: str) -> list[int]:
    return [ord(c) for c in s]


def uncps(a) -> str:
    return "".join(chr(x) for x in a)


# ----------------------------------------------------------------------------------------- build
@dataclass
class BuildResult:
    gen: dict
    gen_errors: dict
    props_ok: bool
    oblig_ok: bool
    broken: list            # names of modules/theorems that no longer check
    log: str
    theorems: dict          # name -> [axioms]
    expected: list          # theorem names found in the property's source files
    forbidden_hits: list
    gen_errors_for_prop: dict = field(default_factory=dict)


def strip_lean_comments(src: str) -> str:
    out, i, depth = [], 0, 0
    while i < len(src):
        if src.startswith("/-", i):
            depth += 1; i += 2; continue
        if depth and src.startswith("-/", i):
            depth -= 1; i += 2; continue
        if depth:
            if src[i] == "\n": out.append("\n")
            i += 1; continue
        if src.startswith("--", i):
            while i < len(src) and src[i] != "\n": i += 1
            continue
        out.append(src[i]); i += 1
    return "".join(out)


def source_theorems(module: str) -> list[str]:
    path = os.path.join(LEAN, *module.split(".")) + ".lean"
    try:
        src = strip_lean_comments(open(path).read())
    except FileNotFoundError:
        return []
    ns = []
    names = []
    for line in src.splitlines():
        m = re.match(r"\s*namespace\s+(\S+)", line)
        if m: ns.append(m.group(1)); continue
        m = re.match(r"\s*end\s+(\S+)", line)
        if m and ns and ns[-1] == m.group(1): ns.pop(); continue
        m = re.match(r"\s*(?:private\s+|protected\s+)?theorem\s+(\S+)", line)
        if m:
            names.append(".".join(ns + [m.group(1)]))
    return names


def forbidden_scan() -> list[str]:
    hits = []
    for root, _, files in os.walk(LEAN):
        if ".lake" in root: continue
        for f in files:
            if not f.endswith(".lean"): continue
            p = os.path.join(root, f)
            if f == "AuditCmd.lean": continue
            src = strip_lean_comments(open(p).read())
            for m in FORBIDDEN.finditer(src):
                hits.append(f"{os.path.relpath(p, VERIF)}: {m.group(0).strip()}")
    return hits


def lake(targets: list[str], timeout=3000):
    return sh(["lake", "build"] + targets, cwd=LEAN, timeout=timeout)


def build(prop: str, gen_deps: Iterable[str] = (), extra_modules: Iterable[str] = ()) -> BuildResult:
    """translate -> lake build (driver, Props.Cnn, Oblig.Cnn) -> audit; under an exclusive lock."""
    os.makedirs(WORK, exist_ok=True)
    props_mod, oblig_mod = f"SigmaVerif.Props.{prop}", f"SigmaVerif.Oblig.{prop}"
    with open(os.path.join(WORK, "build.lock"), "w") as lock:
        fcntl.flock(lock, fcntl.LOCK_EX)
        env = dict(os.environ); env[GUARD] = "1"; env["VERIF_REPO"] = REPO
        rc, out = sh([PY, os.path.join(VERIF, "tools", "translate.py")], env=env, timeout=600)
        if rc != 0:
            raise Infra(f"translator crashed:\n{out}")
        gen = json.load(open(os.path.join(WORK, "gen.json")))
        log = []
        rc, out = lake(["driver", "SigmaVerif.AuditCmd"])
        log.append(out)
        if rc != 0:
            raise Infra(f"driver build failed:\n{out[-4000:]}")
        rc_p, out = lake([props_mod] + list(extra_modules)); log.append(out)
        props_ok = rc_p == 0
        has_oblig = os.path.exists(os.path.join(LEAN, *oblig_mod.split(".")) + ".lean")
        rc_o, out_o = lake([oblig_mod]) if has_oblig else (0, "")
        log.append(out_o)
        oblig_ok = rc_o == 0
        broken = []
        if not props_ok:
            broken.append(props_mod)
        if not oblig_ok:
            broken.append(oblig_mod)
            for m in re.finditer(r"error: (\S+\.lean):(\d+):", out_o):
                broken.append(f"{m.group(1)}:{m.group(2)}")
        # audit whatever built
        mods = [m for m, ok in ((props_mod, props_ok), (oblig_mod, oblig_ok and has_oblig)) if ok]
        theorems = {}
        if mods:
            audit_src = "".join(f"import {m}\n" for m in mods) + "import SigmaVerif.AuditCmd\n" + \
                        "".join(f"#audit_module {m}\n" for m in mods)
            ap = os.path.join(WORK, f"Audit_{prop}.lean")
            open(ap, "w").write(audit_src)
            rc, out = sh(["lake", "env", "lean", ap], cwd=LEAN, timeout=1200)
            if rc != 0:
                raise Infra(f"audit failed:\n{out[-3000:]}")
            for m in re.finditer(r"AUDIT (\S+) ::(.*)", out):
                theorems[m.group(1)] = [a.strip() for a in m.group(2).split(",") if a.strip()]
        # thorough tier: the compiled modules are re-checked by the toolchain's independent checker
        if os.environ.get("VERIF_TIER_EFFECTIVE") == "thorough" and mods:
            rc, out = sh(["lake", "env", "leanchecker"] + mods, cwd=LEAN, timeout=3000)
            log.append(f"leanchecker {' '.join(mods)}: rc={rc}\n{out[-2000:]}")
            if rc != 0:
                broken.append("leanchecker:" + ",".join(mods))
        expected = source_theorems(props_mod) + source_theorems(oblig_mod)
        hits = forbidden_scan()
        fcntl.flock(lock, fcntl.LOCK_UN)
    return BuildResult(gen=gen, gen_errors=gen.get("errors", {}), props_ok=props_ok, oblig_ok=oblig_ok,
                       broken=broken, log="\n".join(log), theorems=theorems, expected=expected,
                       forbidden_hits=hits,
                       gen_errors_for_prop={k: v for k, v in gen.get("errors", {}).items() if k in set(gen_deps)})


# ---------------------------------------------------------------------------------------- driver
def drive(requests: list[dict], timeout=3000) -> list[dict]:
    """Pipe one JSON line per request through the compiled Lean driver; replies keyed by id."""
    if not requests:
        return []
    for i, r in enumerate(requests):
        r["id"] = i
    chunks = [requests[i::NPROC] for i in range(NPROC)] if len(requests) > 2000 else [requests]
    procs = []
    for ch in chunks:
        if not ch: continue
        p = subprocess.Popen([DRIVER], stdin=subprocess.PIPE, stdout=subprocess.PIPE, text=True)
        procs.append((p, ch))
    # feed in threads to avoid pipe deadlocks
    import threading
    outs = [None] * len(procs)

    def run(i, p, ch):
        data = "\n".join(json.dumps(r, separators=(",", ":")) for r in ch) + "\n"
        outs[i], _ = p.communicate(data, timeout=timeout)
    ths = [threading.Thread(target=run, args=(i, p, ch)) for i, (p, ch) in enumerate(procs)]
    [t.start() for t in ths]; [t.join() for t in ths]
    replies = [None] * len(requests)
    for (p, ch), out in zip(procs, outs):
        if p.returncode != 0:
            raise Infra(f"driver exited with {p.returncode}")
        lines = [l for l in out.splitlines() if l.strip()]
        if len(lines) != len(ch):
            raise Infra(f"driver answered {len(lines)} lines for {len(ch)} requests")
        for l in lines:
            j = json.loads(l)
            replies[j["id"]] = j
    for i, r in enumerate(replies):
        if r is None or "error" in r:
            raise Infra(f"driver error on request {i}: {r} :: {json.dumps(requests[i])[:300]}")
    return replies


# ----------------------------------------------------------------------------- running real code
def outcome_of_exception(e: BaseException) -> str:
    """Map an exception to the small enum `sigma:<class>` / `other:<class>`."""
    try:
        from sigma.exceptions import SigmaError
        if isinstance(e, SigmaError):
            return f"sigma:{type(e).__name__}"
    except Exception:
        pass
    return f"other:{type(e).__name__}"


def _pool_init():
    os.environ[GUARD] = "1"
    if REPO not in sys.path:
        sys.path.insert(0, REPO)


def pmap(fn: Callable, items: list, chunksize=None) -> list:
    """Run fn over items in worker processes (fork), preserving order."""
    if len(items) < 64 or NPROC == 1:
        _pool_init()
        return [fn(x) for x in items]
    import multiprocessing as mp
    ctx = mp.get_context("fork")
    with ctx.Pool(NPROC, initializer=_pool_init) as pool:
        return pool.map(fn, items, chunksize or max(1, len(items) // (NPROC * 8)))


# ------------------------------------------------------------------------------- known findings
def load_findings() -> dict:
    p = os.path.join(VERIF, "known_findings.json")
    try:
        return json.load(open(p))
    except FileNotFoundError:
        return {"findings": [], "fixed": []}


# -------------------------------------------------------------------------------------- verdicts
@dataclass
class Verdict:
    status: str                 # "ok" | "violation" | "drift" (model differs, property judged fine)
    what: str = ""
    nontrivial: bool = False
    key: Any = None             # canonical form for distinct counting
    finding: str | None = None  # id of a known finding class this violation belongs to
    tags: tuple = ()            # distribution tags
    drift: str = ""             # model drift observed next to a non-"ok" status (diagnostic, recorded like status "drift")


@dataclass
class Run:
    prop: str
    tier: str
    seed: int
    t0: float = field(default_factory=time.time)
    evaluations: int = 0
    keys: set = field(default_factory=set)
    samples: list = field(default_factory=list)
    dist: dict = field(default_factory=dict)
    drift: list = field(default_factory=list)
    drift_total: int = 0
    violations: list = field(default_factory=list)      # (case, verdict)
    known: dict = field(default_factory=dict)           # finding id -> (count, example)
    exhaustive: bool = False
    notes: list = field(default_factory=list)

    def record(self, case: dict, v: Verdict):
        self.evaluations += 1
        if v.nontrivial and v.key is not None:
            self.keys.add(hashlib.sha1(json.dumps(v.key, sort_keys=True, default=str).encode()).digest()[:10])
        for t in v.tags:
            self.dist[t] = self.dist.get(t, 0) + 1
        if len(self.samples) < 6 and v.nontrivial and (self.evaluations % 97 == 1 or len(self.samples) < 2):
            self.samples.append(case)
        if v.status == "drift" or v.drift:
            self.drift_total += 1
            if len(self.drift) < 20:
                self.drift.append({"case": case, "what": v.what if v.status == "drift" else v.drift})
        if v.status == "violation":
            if v.finding:
                c, ex = self.known.get(v.finding, (0, None))
                self.known[v.finding] = (c + 1, ex or {"case": case, "what": v.what})
            else:
                self.violations.append((case, v))


def case_size(case) -> int:
    return len(json.dumps(case, default=str))


def write_replay(prop: str, obj: dict) -> str:
    d = os.path.join(VERIF, "replays", prop)
    os.makedirs(d, exist_ok=True)
    blob = json.dumps(obj, sort_keys=True, indent=1, default=str)
    name = hashlib.sha1(blob.encode()).hexdigest()[:12] + ".json"
    path = os.path.join(d, name)
    open(path, "w").write(blob)
    return os.path.relpath(path, VERIF)


def finish(run: Run, b: BuildResult, level_rule: str, assumptions: list[str], extra_cov: dict | None = None) -> int:
    """Print KNOWN-FINDING / VIOLATION lines, write evidence, return the exit code."""
    findings = {f["id"]: f for f in load_findings().get("findings", []) if f.get("property") == run.prop}
    exit_code = 0
    known_out = []
    for fid, (count, ex) in sorted(run.known.items()):
        f = findings.get(fid)
        if f is None:     # class matched by code but no longer listed -> real violation
            run.violations.append((ex["case"], Verdict("violation", ex["what"])))
            continue
        print(f"KNOWN-FINDING: property={run.prop} {fid} {f['what']} ({count} inputs in this run, e.g. {json.dumps(ex['case'], default=str)[:160]})")
        known_out.append({"id": fid, "count": count, "example": ex})
    vio_paths = []
    if run.violations:
        run.violations.sort(key=lambda cv: case_size(cv[0]))
        # report the smallest few distinct ones
        seen = set()
        for case, v in run.violations:
            sig = v.what[:80]
            if sig in seen: continue
            seen.add(sig)
            path = write_replay(run.prop, {"property": run.prop, "kind": "failing-input", "input": case,
                                           "what": v.what, "seed": run.seed, "tier": run.tier,
                                           "broken": b.broken,
                                           "replay_cmd": f"./check {run.prop} --replay <this file>"})
            print(f"VIOLATION property={run.prop} replay={path}")
            vio_paths.append(path)
            if len(vio_paths) >= 5: break
        exit_code = 1
    elif b.broken or b.gen_errors_for_prop:
        names = list(b.broken) + [f"translator:{k}" for k in b.gen_errors_for_prop]
        path = write_replay(run.prop, {"property": run.prop, "kind": "broken-obligation", "names": names,
                                       "log_tail": b.log[-3000:], "seed": run.seed, "tier": run.tier,
                                       "searched": run.evaluations})
        print(f"VIOLATION property={run.prop} replay={path} no-failing-input-found")
        vio_paths.append(path)
        exit_code = 1
    bad_axioms = {n: a for n, a in b.theorems.items() if not set(a) <= ALLOWED_AXIOMS}
    discharged = [n for n in b.expected if n in b.theorems and n not in bad_axioms]
    cov = {
        "obligations": len(b.expected),
        "discharged": len(discharged),
        "checker_cmd": f"cd lean && lake build SigmaVerif.Props.{run.prop} SigmaVerif.Oblig.{run.prop} && lake env lean ../.work/Audit_{run.prop}.lean"
                       + (f" && lake env leanchecker SigmaVerif.Props.{run.prop} SigmaVerif.Oblig.{run.prop}" if run.tier == "thorough" else ""),
        "trusted_base": TRUSTED_BASE,
        "theorems": {n: b.theorems.get(n, ["<not built>"]) for n in b.expected},
        "partial": [n for n in b.expected if n.endswith("_partial")],
        "evaluations": run.evaluations,
        "distinct_nontrivial": len(run.keys),
        "rule": level_rule,
        "samples": run.samples[:6] or [{"note": "no sweep cases in this run"}],
        "distribution": dict(sorted(run.dist.items())),
        "exhaustive": run.exhaustive,
        "model_drift": run.drift[:10],
        "model_drift_count": run.drift_total,
        "gen_errors": b.gen_errors_for_prop,
        "broken": b.broken,
        "known_findings": known_out,
        "violation_replays": vio_paths,
        "notes": run.notes,
    }
    if extra_cov: cov.update(extra_cov)
    ev = {"property_id": run.prop, "tier": run.tier, "seed": run.seed, "level": "proof", "coverage": cov,
          "assumptions": assumptions, "wall_s": round(time.time() - run.t0, 2),
          "violations": len(run.violations) + (1 if (exit_code == 1 and not run.violations) else 0)}
    os.makedirs(os.path.join(VERIF, "evidence"), exist_ok=True)
    p = os.path.join(VERIF, "evidence", f"{run.prop}.json")
    with open(p + ".tmp", "w") as f:
        json.dump(ev, f, indent=1, default=str)
    os.replace(p + ".tmp", p)
    if bad_axioms or b.forbidden_hits:
        print(f"AUDIT-FAILURE: axioms={bad_axioms} forbidden={b.forbidden_hits}", file=sys.stderr)
        return 2 if exit_code == 0 else exit_code
    print(f"{run.prop} {run.tier}: {run.evaluations} cases, {len(run.keys)} distinct non-trivial, "
          f"{len(discharged)}/{len(b.expected)} obligations, drift={run.drift_total}, "
          f"known={sum(c for c, _ in run.known.values())}, violations={len(run.violations)}, {ev['wall_s']}s")
    return exit_code
