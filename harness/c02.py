"""C02 — condition text parses to the boolean function it spells.

Correspondence (K): for a condition string and a set of detection names, the implementation's
observable is the truth table of `SigmaCondition.parsed` over all 2^n assignments (each detection is
a distinct marker keyword) or the error class.  Deciding comparison: against the *specification
reading* (Spec/Cond.lean, word-level); diagnostic: against the PEG model (Model/Cond.lean) at the
regenerated grammar."""
from __future__ import annotations
import itertools, random
from .common import Verdict, cps, outcome_of_exception

ID = "C02"
GEN = ["Cond"]
RULE = ("condition strings = all expression ASTs up to a size bound over a name/selector pool rendered in several "
        "spellings (canonical, redundant parentheses, irregular whitespace, glued parentheses), plus all "
        "concatenations of <=4 tokens from an adversarial token set (malformed stream), plus seeded random larger "
        "expressions; distinct = distinct (text, detection set); non-trivial = >=2 operators, or a selector, or a "
        "keyword-prefixed / underscore / digit-leading name"
        "; plus the same condition text parsed twice in one process against different detection sets"
        "; names that are substrings of 'condition', patterns with several '*', the two-step parse API (parse(False) + postprocess) as first use")
RULE += "; round 4: detection names that are keys of other Sigma documents ('rules', 'timeframe', 'detection'), names and selector patterns with upper-case letters / differing only in case"
ASSUMPTIONS = [
    "pyparsing implements the five combinators used by the grammar as a scannerless PEG (validated by this sweep)",
    "look-behind half of pyparsing.Keyword is not modelled (cannot fire in the Keyword grammar)",
    "a selector matching no detection is modelled (operand dropped) but not judged: the specification is silent",
    "detection names equal to a keyword (not/and/or/1/any/all/of/them) are not generated",
]

NAMES = ["sel", "notepad", "android", "order", "allx", "anyof", "of_x", "them2", "1st", "_inj", "a-b",
         "filter_1", "filter_2", "not-b", "sel2", "x_1", "notb", "orb", "andb", "b", "Sel",
         # names that are substrings of the word 'condition', names matching only part of a multi-star pattern
         "on", "cond", "it", "c", "fx", "filterx", "sel_x_1", "proc_a_susp1", "proc_b",
         # names that are keys of other Sigma documents (a filter's 'rules', top-level rule keys), names differing only in case
         "rules", "timeframe", "detection", "Sel_Image", "sel_image", "SEL_X_1", "Proc_B"]
PATTERNS = ["them", "sel*", "*_1", "f*_*", "_*", "*", "not*", "*b", "filter_1", "zzz*", "a*",
            "f*_1*", "proc_*_susp*", "*_x_*", "s*l*_*1", "*o*", "c*",
            "Sel*", "*_Image", "SEL*", "*_X_*", "Proc_*", "r*", "*s"]
KEYWORDY = ("not", "and", "or", "all", "any", "of", "them", "1")


def render(e, ctx=2, style=0, rnd=None):
    """style 0: canonical; 1: redundant parens everywhere; 2: irregular whitespace; 3: glued parens"""
    k = e[0]
    sp = " " if style != 2 else (rnd.choice([" ", "  ", "\t", " \n "]) if rnd else "  ")
    if k == "id":
        s = e[1]
        return f"({s})" if style == 1 else s
    if k == "sel":
        s = f"{e[1]}{sp}of{sp}{e[2]}"
        return f"({s})" if style == 1 else s
    if k == "not":
        inner = render(e[1], 0, style, rnd)
        if style == 3 and inner.startswith("("):
            s = "not" + inner
        else:
            s = "not" + sp + inner
        return f"({s})" if style == 1 else s
    lvl = 1 if k == "and" else 2
    a = render(e[1], lvl, style, rnd)
    b = render(e[2], lvl - 1, style, rnd)
    if style == 3:
        l = "" if a.endswith(")") else " "
        r = "" if b.startswith("(") else " "
        body = a + l + k + r + b
    else:
        body = a + sp + k + sp + b
    if lvl > ctx or style == 1:
        return "(" + body + ")"
    return body


def trees(size, atoms):
    """all binary ASTs with exactly `size` nodes"""
    if size == 1:
        for a in atoms:
            yield a
        return
    for t in trees(size - 1, atoms):
        yield ("not", t)
    for ls in range(1, size - 1):
        for l in trees(ls, atoms):
            for r in trees(size - 1 - ls, atoms):
                yield ("and", l, r)
                yield ("or", l, r)


def rand_tree(rnd, depth, atoms):
    if depth == 0 or rnd.random() < 0.25:
        return rnd.choice(atoms)
    r = rnd.random()
    if r < 0.2:
        return ("not", rand_tree(rnd, depth - 1, atoms))
    return (rnd.choice(["and", "or"]), rand_tree(rnd, depth - 1, atoms), rand_tree(rnd, depth - 1, atoms))


def gen_cases(tier, seed, gen, effort):
    rnd = random.Random(seed * 7919 + 17)
    cases = []
    thorough = tier == "thorough"
    # ---- exhaustive small-scope part
    detsets = [["sel", "notepad", "sel2"], ["a-b", "_inj", "andb", "b"], ["1st", "order", "filter_1", "filter_2", "of_x"]]
    if thorough or effort > 1:
        detsets += [["not-b", "orb", "allx", "x_1"], ["android", "anyof", "them2", "Sel", "notb"]]
    maxsize = 5 if not thorough else 6
    for dets in detsets:
        atoms = [("id", n) for n in dets[:3]]
        atoms += [("sel", q, p) for q, p in (("1", "them"), ("all", dets[0][:2] + "*"), ("any", "*" + dets[1][-1:]))]
        small = atoms if not thorough else atoms + [("sel", "all", "_*"), ("id", dets[-1])]
        for size in range(1, maxsize + 1):
            pool = small if size <= 3 else atoms[:4] if size == 4 else atoms[:3] if size == 5 else atoms[:2]
            for t in trees(size, pool):
                cases.append({"text": render(t, 2, 0), "dets": dets})
                if size <= 4:
                    for st in (1, 2, 3):
                        cases.append({"text": render(t, 2, st, rnd), "dets": dets})
    # ---- malformed / adversarial token concatenations
    toks = ["a", "not", "and", "or", "(", ")", "1 of", "all of them", "x*", "notepad", "andb", "-b", "of", "1"]
    dets = ["a", "notepad", "andb", "x1", "b", "-b"]
    maxtok = 4 if (thorough or effort > 1) else 3
    for n in range(1, maxtok + 1):
        for seq in itertools.product(toks, repeat=n):
            cases.append({"text": " ".join(seq), "dets": dets})
            if n <= 3:
                cases.append({"text": "".join(seq), "dets": dets})
    # ---- random larger expressions over the big pool
    nrand = (3000 if not thorough else 40000) * effort
    for _ in range(nrand):
        k = rnd.randint(2, 6)
        dets = rnd.sample(NAMES, k)
        atoms = [("id", n) for n in dets] + [("sel", rnd.choice(["1", "any", "all"]), rnd.choice(PATTERNS)) for _ in range(2)]
        if rnd.random() < 0.1:
            atoms.append(("id", rnd.choice(NAMES)))     # possibly undefined
        t = rand_tree(rnd, rnd.randint(1, 5), atoms)
        cases.append({"text": render(t, 2, rnd.choice([0, 0, 1, 2, 3]), rnd), "dets": dets})
    # ---- the same condition text parsed twice in one process against different detection sets (parse results are
    # cached per text: the second rule must get its own resolution)
    for _ in range((400 if not thorough else 4000) * effort):
        k = rnd.randint(2, 5)
        dets = rnd.sample(NAMES, k)
        first = rnd.sample(dets, rnd.randint(1, k)) + rnd.sample(NAMES, rnd.randint(0, 2))
        rnd.shuffle(first)
        atoms = [("id", n) for n in dets[:2]] + [("sel", rnd.choice(["1", "any", "all"]), rnd.choice(PATTERNS + ["them"])) for _ in range(2)]
        t = rand_tree(rnd, rnd.randint(2, 5), atoms)
        cases.append({"text": render(t, 2, 0), "dets": dets, "first": list(dict.fromkeys(first))})
    # dedupe
    seen, out = set(), []
    for c in cases:
        key = (c["text"], tuple(c["dets"]), tuple(c.get("first", ())))
        if key not in seen:
            seen.add(key); out.append(c)
    return out, True


def run_impl(case):
    from sigma.rule.detection import SigmaDetections
    from sigma.conditions import (ConditionOR, ConditionAND, ConditionNOT, ConditionValueExpression,
                                  ConditionFieldEqualsValueExpression)
    dets = case["dets"]
    if case.get("first"):
        try:
            f = SigmaDetections.from_dict({**{n: [f"m{i}"] for i, n in enumerate(case["first"])}, "condition": case["text"]})
            if len(case["first"]) % 2:
                f.parsed_condition[0].parsed
            else:       # the two-step API: the raw parse, post-processed by the caller
                t0 = f.parsed_condition[0].parse(False)
                t0.postprocess(f)
        except Exception:
            pass
    try:
        d = SigmaDetections.from_dict({**{n: [f"m{i}"] for i, n in enumerate(dets)}, "condition": case["text"]})
        tree = d.parsed_condition[0].parsed
    except Exception as e:
        return {"outcome": outcome_of_exception(e), "msg": str(e)[:120]}
    if tree is None:
        return {"outcome": "none"}
    marker = {f"m{i}": i for i in range(len(dets))}

    def ev(t, k):
        """three-valued: None = the operand vanished (the converter drops such operands)"""
        if t is None:
            return None
        if isinstance(t, ConditionValueExpression):
            return bool(k >> marker[str(t.value)] & 1)
        if isinstance(t, ConditionNOT):
            v = ev(t.args[0], k)
            return None if v is None else not v
        if isinstance(t, (ConditionAND, ConditionOR)):
            vs = [v for v in (ev(a, k) for a in t.args) if v is not None]
            if not vs:
                return None
            return all(vs) if isinstance(t, ConditionAND) else any(vs)
        raise TypeError(type(t).__name__)
    try:
        table = [ev(tree, k) for k in range(2 ** len(dets))]
        if table[0] is None:
            return {"outcome": "none"}
        return {"outcome": "ok", "table": table}
    except Exception as e:
        return {"outcome": "other:eval:" + type(e).__name__}


def make_request(case, impl, gen):
    r = {"op": "cond.parse", "text": cps(case["text"]), "dets": [cps(n) for n in case["dets"]]}
    g = gen.get("Cond")
    if g:
        r["grammar"] = {k: (cps(v) if isinstance(v, str) else [cps(x) for x in v] if isinstance(v, list) else v)
                        for k, v in g.items() if k != "whiteChars"}
    return r


def _nontrivial(text):
    words = text.replace("(", " ").replace(")", " ").split()
    ops = sum(w in ("not", "and", "or") for w in words)
    sel = "of" in words
    kwname = any(w not in KEYWORDY and (w.startswith(KEYWORDY) or w[0] in "_0123456789-") for w in words)
    return ops >= 2 or sel or kwname


def judge(case, impl, reply):
    spec, model = reply["spec"], reply["model"]
    io = impl["outcome"]
    key = (case["text"], case["dets"])
    nt = _nontrivial(case["text"])
    tags = (f"impl:{io.split(':')[0]}", f"spec:{spec['outcome']}")
    if io.startswith("other:"):
        return Verdict("violation", f"non-Sigma exception {io} on {case['text']!r}", nt, key, tags=tags)
    impl_rej = io.startswith("sigma:")
    status, what = "ok", ""
    if spec["outcome"] == "ok":
        if io == "ok":
            if impl["table"] != spec["table"]:
                k = next(i for i, (a, b) in enumerate(zip(impl["table"], spec["table"])) if a != b)
                asg = {n: bool(k >> i & 1) for i, n in enumerate(case["dets"])}
                status, what = "violation", f"{case['text']!r}: implementation gives {impl['table'][k]} but the condition spells {spec['table'][k]} under {asg}"
        elif io == "none":
            # every operand vanished (selectors matching nothing): modelled, not judged
            tags += ("unjudged:none",)
        else:
            status, what = "violation", f"{case['text']!r} is a valid condition over {case['dets']} but is rejected: {impl.get('msg')}"
        # selectors that match nothing make the tables differ legitimately (operand dropped): not judged
        if status == "violation" and model["outcome"] in ("ok", "none") and reply["modelStd"].get("table") == impl.get("table") and _has_empty_selector(case):
            status, what = "ok", ""
            tags += ("unjudged:empty-selector",)
    else:
        # spec rejects (ungrammatical or undefined detection)
        if not impl_rej and reply.get("overNames") and spec["outcome"] == "parse_error":
            status, what = "violation", (f"{case['text']!r} is not a condition of the Sigma grammar (a word is split or operands are "
                                         f"juxtaposed) but is accepted with table {impl.get('table')}")
        elif not impl_rej and spec["outcome"] == "undefined":
            status, what = "violation", f"{case['text']!r} names a detection that is not defined but is accepted"
    if status == "ok":
        # diagnostic comparison with the PEG model at the regenerated grammar
        mo = model["outcome"]
        same = (mo == "ok" and io == "ok" and model["table"] == impl["table"]) or (mo == "none" and io == "none") or \
               (mo in ("parse_error", "undefined") and impl_rej)
        if not same:
            return Verdict("drift", f"model {mo} vs impl {io} on {case['text']!r}", nt, key, tags=tags)
    if status == "violation" and case.get("first"):
        what += f" (second parse of this text in the process; it was first parsed for a rule with detections {case['first']})"
        tags += ("repeated-parse",)
    return Verdict(status, what, nt, key, tags=tags)


def _has_empty_selector(case):
    import re
    dets = case["dets"]
    for m in re.finditer(r"\b(?:1|any|all)\s+of\s+([A-Za-z0-9_*]+)", case["text"]):
        pat = m.group(1)
        rx = re.compile(".*" if pat == "them" else pat.replace("*", ".*"))
        if not any(rx.fullmatch(d) and (pat.startswith("_") or not d.startswith("_")) for d in dets):
            return True
    return False


def shrink(case, v, evaluate):
    """greedy word deletion while the case stays a violation"""
    cur, curv = case, v
    improved = True
    while improved:
        improved = False
        words = cur["text"].split(" ")
        cands = [{"text": " ".join(words[:i] + words[i + 1:]), "dets": cur["dets"]} for i in range(len(words))]
        cands += [{"text": cur["text"], "dets": cur["dets"][:i] + cur["dets"][i + 1:]} for i in range(len(cur["dets"]))]
        cands = [c for c in cands if c["text"].strip() and c["dets"]]
        for c, i, r, vv in evaluate(cands):
            if vv.status == "violation" and not vv.finding:
                cur, curv, improved = c, vv, True
                break
    return cur, curv
