#!/usr/bin/env python3
"""Run pySigma's pinned test suite (guard OFF) and compare with /root/.vp/BASELINE.json stable_pass.
Exit 0 iff every stable-pass test passes.  Usage: baseline.py [repo_dir]"""
import json, os, subprocess, sys, tempfile, xml.etree.ElementTree as ET
repo = sys.argv[1] if len(sys.argv) > 1 else "/repo"
base = json.load(open("/root/.vp/BASELINE.json"))
work = os.path.join(os.path.dirname(os.path.abspath(__file__)), "..", ".work")
os.makedirs(work, exist_ok=True)
out = os.path.join(work, "baseline.junit.xml")
env = dict(os.environ); env.pop("SIGMAHQ_PYSIGMA_VERIF", None)
subprocess.run(["/venv/bin/python", "-m", "pytest", "-ra", "-q", "-p", "no:cacheprovider", "--timeout=900",
                "--continue-on-collection-errors", f"--junitxml={out}"], cwd=repo, env=env,
               stdout=subprocess.DEVNULL, stderr=subprocess.DEVNULL)
passed = set()
for tc in ET.parse(out).getroot().iter("testcase"):
    if not any(ch.tag in ("failure", "error", "skipped") for ch in tc):
        passed.add(f"{tc.get('classname')}::{tc.get('name')}")
want = set(base["stable_pass"])
missing = sorted(want - passed)
print(f"stable_pass={len(want)} passed_now={len(passed)} missing={len(missing)}")
for m in missing[:20]: print("  MISSING", m)
sys.exit(1 if missing else 0)
