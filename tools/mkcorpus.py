#!/usr/bin/env python3
"""Populate corpus/<Cnn>/ with the minimised failing inputs found for the seeded changes (seeded/<id>/result.json):
past failures that run first in every check.  On the unchanged tree every corpus input passes; if a change
like the seeded one returns, the corpus input fails immediately, whatever the seed."""
import json, os, glob
V = os.path.dirname(os.path.dirname(os.path.abspath(__file__)))
n = 0
for f in sorted(glob.glob(os.path.join(V, "seeded", "*", "result.json"))):
    r = json.load(open(f))
    rp = r.get("example_replay")
    if not rp or rp.get("kind") != "failing-input" or "input" not in rp:
        continue
    if r["property"] == "C09" and isinstance(rp["input"], dict) and "set" in rp["input"]:
        rp["input"]["set"] = "corpus:" + r["id"]      # C09 compares the permutations of one rule set: keep corpus sets apart from generated ones
    d = os.path.join(V, "corpus", r["property"])
    os.makedirs(d, exist_ok=True)
    json.dump({"input": rp["input"], "origin": f"seeded change {r['id']}", "what": (rp.get("what") or "")[:300]},
              open(os.path.join(d, r["id"] + ".json"), "w"), indent=1, default=str)
    n += 1
print("corpus entries:", n)
