"""AST analysis for property C20 (translator part `Det`).

Walks every module under <repo>/sigma and lists

* every place where a *set-typed* expression is consumed in an order-revealing way
  (`str.join`, f-string / `str()` / `.format` interpolation, `for` statement, list/dict/generator
  comprehension, `list()`, `tuple()`, `enumerate()`, `iter()`, `*`-unpacking) or by `sorted()`;
* the random-name generators (`<prefix literal> + "".join(random.choices(<alphabet>, k=<n>))`);
* the names called by `ProcessingItemBase._generate_identifier`.

The set-type inference is syntactic and conservative (no data flow across functions except through
annotations):

  set-typed expression :=
      set display / set comprehension / `set(...)` / `frozenset(...)`
    | `<set>.union|intersection|difference|symmetric_difference|copy(...)`
    | `a - b`, `a & b`, `a | b`, `a ^ b` where one operand is set-typed or a `.keys()` / `.items()` view
    | a name annotated (`x: set[...]`, argument annotation) or assigned from a set-typed expression in the
      same function, or bound by `for k, v in <dict-of-sets>.items()` / `for v in <dict-of-sets>.values()`
    | an attribute whose name is annotated as a set in ANY class of the package
      (`flags: set[...]`, `applied_ids: set[str]`, `self.allowed_tags: set[str] | None = …`)
    | a subscript / `.get()` of a dict-of-sets (attribute or name annotated `dict[..., set[...]]`,
      `DefaultDict[..., set[...]]`, `defaultdict[..., set[...]]`; `self[...]` inside a class deriving from
      `UserDict[..., set[...]]`; names annotated with such a class)
    | a call of a function / method whose return annotation is a set (by bare name, any receiver)

What it cannot classify is listed under `unclassified`: iteration over call results of unannotated
functions and over attributes / names without annotation is NOT followed; they are reported when the
callee's *name* contains "set" or the expression is an `Enum` class iteration (definition order, fine).
"""
from __future__ import annotations
import ast, os

SET_NAMES = {"set", "frozenset", "Set", "FrozenSet", "AbstractSet", "MutableSet"}
DICT_NAMES = {"dict", "Dict", "DefaultDict", "defaultdict", "Mapping", "MutableMapping", "UserDict", "OrderedDict"}
SET_METHODS = {"union", "intersection", "difference", "symmetric_difference", "copy"}
REDUCERS = {"any", "all", "sum", "len", "min", "max", "set", "frozenset", "sorted"}     # order-insensitive consumers
SET_MUTATORS = {"add", "update", "discard", "remove", "difference_update", "intersection_update"}


def _ann_kind(ann) -> str | None:
    """'set' | 'dictset' | None for an annotation expression (also string annotations)."""
    if ann is None:
        return None
    if isinstance(ann, ast.Constant) and isinstance(ann.value, str):
        try:
            ann = ast.parse(ann.value, mode="eval").body
        except SyntaxError:
            return None
    if isinstance(ann, ast.BinOp) and isinstance(ann.op, ast.BitOr):      # X | None
        return _ann_kind(ann.left) or _ann_kind(ann.right)
    if isinstance(ann, ast.Subscript):
        base = ann.value
        name = base.id if isinstance(base, ast.Name) else base.attr if isinstance(base, ast.Attribute) else None
        if name in ("Optional", "ClassVar", "Final", "Annotated"):
            inner = ann.slice.elts[0] if isinstance(ann.slice, ast.Tuple) else ann.slice
            return _ann_kind(inner)
        if name in ("Union",):
            elts = ann.slice.elts if isinstance(ann.slice, ast.Tuple) else [ann.slice]
            for e in elts:
                k = _ann_kind(e)
                if k:
                    return k
            return None
        if name in SET_NAMES:
            return "set"
        if name in DICT_NAMES:
            elts = ann.slice.elts if isinstance(ann.slice, ast.Tuple) else [ann.slice]
            if len(elts) == 2 and _ann_kind(elts[1]) == "set":
                return "dictset"
        return None
    if isinstance(ann, ast.Name) and ann.id in SET_NAMES:
        return "set"
    return None


class Package:
    """first pass over all modules: annotated attributes, dict-of-set classes, set-returning functions"""

    def __init__(self, root: str):
        self.root = root
        self.trees = {}
        for d, _, files in sorted(os.walk(os.path.join(root, "sigma"))):
            for f in sorted(files):
                if f.endswith(".py"):
                    p = os.path.join(d, f)
                    rel = os.path.relpath(p, root)
                    self.trees[rel] = ast.parse(open(p, encoding="utf-8").read(), filename=rel)
        self.set_attrs, self.dictset_attrs, self.set_funcs, self.dictset_classes = set(), set(), {}, set()
        self.attr_ann_conflict = set()
        self.class_attrs, self.class_bases = {}, {}     # class name -> {attr: kind or "other"}, class name -> base names
        other_attrs = set()
        for rel, tree in self.trees.items():
            for node in ast.walk(tree):
                if isinstance(node, ast.ClassDef):
                    for b in node.bases:
                        if _ann_kind(b) == "dictset":
                            self.dictset_classes.add(node.name)
                    self.class_bases.setdefault(node.name, []).extend(
                        b.id if isinstance(b, ast.Name) else b.attr if isinstance(b, ast.Attribute) else
                        (b.value.id if isinstance(b, ast.Subscript) and isinstance(b.value, ast.Name) else "") for b in node.bases)
                    ca = self.class_attrs.setdefault(node.name, {})
                    for st in node.body:
                        if isinstance(st, ast.AnnAssign) and isinstance(st.target, ast.Name):
                            k = _ann_kind(st.annotation)
                            ca[st.target.id] = k or "other"
                            (self.set_attrs if k == "set" else self.dictset_attrs if k == "dictset" else other_attrs).add(st.target.id)
                    for sub in ast.walk(node):
                        if isinstance(sub, ast.AnnAssign) and isinstance(sub.target, ast.Attribute) and \
                                isinstance(sub.target.value, ast.Name) and sub.target.value.id == "self":
                            ca[sub.target.attr] = _ann_kind(sub.annotation) or "other"
                if isinstance(node, ast.AnnAssign) and isinstance(node.target, ast.Attribute):
                    k = _ann_kind(node.annotation)
                    (self.set_attrs if k == "set" else self.dictset_attrs if k == "dictset" else other_attrs).add(node.target.attr)
                if isinstance(node, (ast.FunctionDef, ast.AsyncFunctionDef)) and _ann_kind(node.returns) == "set":
                    a = node.args
                    names = [x.arg for x in a.posonlyargs + a.args if x.arg not in ("self", "cls")]
                    lo, hi = len(names) - len(a.defaults), len(names) + len(a.kwonlyargs)
                    old = self.set_funcs.get(node.name)
                    self.set_funcs[node.name] = (min(lo, old[0]), max(hi, old[1])) if old else (max(lo, 0), hi)
        # second sweep: names annotated with a dict-of-set class
        for rel, tree in self.trees.items():
            for node in ast.walk(tree):
                if isinstance(node, ast.AnnAssign):
                    ann = node.annotation
                    if isinstance(ann, ast.Constant) and isinstance(ann.value, str):
                        nm = ann.value
                    else:
                        nm = ann.id if isinstance(ann, ast.Name) else None
                    if nm in self.dictset_classes:
                        t = node.target
                        self.dictset_attrs.add(t.id if isinstance(t, ast.Name) else t.attr if isinstance(t, ast.Attribute) else "")
        # an attribute name annotated as a set in one class and as something else in another: keep it as a
        # set (conservative) but report it
        self.attr_ann_conflict = (self.set_attrs | self.dictset_attrs) & other_attrs

    def class_attr_kind(self, cls: str | None, attr: str, depth=0):
        """annotation kind of `attr` in class `cls` or its (by-name) bases: 'set' | 'dictset' | 'other' | None"""
        if cls is None or depth > 8:
            return None
        k = self.class_attrs.get(cls, {}).get(attr)
        if k:
            return k
        for b in self.class_bases.get(cls, []):
            k = self.class_attr_kind(b, attr, depth + 1)
            if k:
                return k
        return None


def _src(node) -> str:
    try:
        s = ast.unparse(node)
    except Exception:
        s = ast.dump(node)
    return " ".join(s.split())


class FuncScan:
    def __init__(self, pkg: Package, rel: str, qual: str, fn, cls_name: str | None):
        self.pkg, self.rel, self.qual, self.fn, self.cls = pkg, rel, qual, fn, cls_name
        self.env: dict[str, str] = {}
        self.parent = {}
        for n in ast.walk(fn):
            for c in ast.iter_child_nodes(n):
                self.parent[c] = n
        self.sites, self.unclassified = [], []

    # ------------------------------------------------------------------ typing
    def is_view(self, e) -> bool:
        return isinstance(e, ast.Call) and isinstance(e.func, ast.Attribute) and e.func.attr in ("keys", "items") and not e.args

    def is_dictset(self, e) -> bool:
        if isinstance(e, ast.Name):
            return self.env.get(e.id) == "dictset" or (e.id == "self" and self.cls in self.pkg.dictset_classes)
        if isinstance(e, ast.Attribute):
            return self.attr_kind(e) == "dictset"
        return False

    def attr_kind(self, e: ast.Attribute):
        if isinstance(e.value, ast.Name) and e.value.id == "self":
            k = self.pkg.class_attr_kind(self.cls, e.attr)
            if k:
                return k
        return "set" if e.attr in self.pkg.set_attrs else "dictset" if e.attr in self.pkg.dictset_attrs else None

    def set_call(self, name: str, call: ast.Call) -> bool:
        ar = self.pkg.set_funcs.get(name)
        if ar is None:
            return False
        n = len(call.args) + len(call.keywords)
        return ar[0] <= n <= ar[1]

    def is_set(self, e) -> bool:
        if isinstance(e, (ast.Set, ast.SetComp)):
            return True
        if isinstance(e, ast.Call):
            f = e.func
            if isinstance(f, ast.Name) and f.id in ("set", "frozenset"):
                return True
            if isinstance(f, ast.Name) and self.set_call(f.id, e):
                return True
            if isinstance(f, ast.Attribute):
                if f.attr in SET_METHODS and self.is_set(f.value):
                    return True
                if self.set_call(f.attr, e):
                    return True
                if f.attr in ("get", "pop", "setdefault") and self.is_dictset(f.value):
                    return True
            return False
        if isinstance(e, ast.BinOp) and isinstance(e.op, (ast.Sub, ast.BitAnd, ast.BitOr, ast.BitXor)):
            return self.is_set(e.left) or self.is_set(e.right) or self.is_view(e.left) or self.is_view(e.right)
        if isinstance(e, ast.Name):
            return self.env.get(e.id) == "set"
        if isinstance(e, ast.Attribute):
            return self.attr_kind(e) == "set"
        if isinstance(e, ast.Subscript):
            return self.is_dictset(e.value)
        if isinstance(e, ast.IfExp):
            return self.is_set(e.body) or self.is_set(e.orelse)
        if isinstance(e, ast.NamedExpr):
            return self.is_set(e.value)
        return False

    def build_env(self):
        a = self.fn.args
        for arg in a.posonlyargs + a.args + a.kwonlyargs + ([a.vararg] if a.vararg else []) + ([a.kwarg] if a.kwarg else []):
            k = _ann_kind(arg.annotation)
            if k:
                self.env[arg.arg] = k
            ann = arg.annotation
            nm = ann.value if isinstance(ann, ast.Constant) and isinstance(ann.value, str) else ann.id if isinstance(ann, ast.Name) else None
            if nm in self.pkg.dictset_classes:
                self.env[arg.arg] = "dictset"
        for _ in range(3):      # cheap fixpoint
            for n in ast.walk(self.fn):
                if isinstance(n, ast.AnnAssign) and isinstance(n.target, ast.Name):
                    k = _ann_kind(n.annotation)
                    if k:
                        self.env[n.target.id] = k
                    elif n.value is not None and self.is_set(n.value):
                        self.env[n.target.id] = "set"
                elif isinstance(n, ast.Assign):
                    for t in n.targets:
                        if isinstance(t, ast.Name):
                            if self.is_set(n.value):
                                self.env[t.id] = "set"
                            elif self.is_dictset(n.value):
                                self.env[t.id] = "dictset"
                elif isinstance(n, ast.NamedExpr) and isinstance(n.target, ast.Name) and self.is_set(n.value):
                    self.env[n.target.id] = "set"
                elif isinstance(n, (ast.For, ast.comprehension)):
                    it, tgt = n.iter, n.target
                    if isinstance(it, ast.Call) and isinstance(it.func, ast.Attribute) and self.is_dictset(it.func.value):
                        if it.func.attr == "items" and isinstance(tgt, ast.Tuple) and len(tgt.elts) == 2 and isinstance(tgt.elts[1], ast.Name):
                            self.env[tgt.elts[1].id] = "set"
                        if it.func.attr == "values" and isinstance(tgt, ast.Name):
                            self.env[tgt.id] = "set"

    # ------------------------------------------------------------------ sites
    def unsort(self, e):
        """(inner, True) if e is sorted(inner …) else (e, False)"""
        if isinstance(e, ast.Call) and isinstance(e.func, ast.Name) and e.func.id == "sorted" and e.args:
            return e.args[0], True
        return e, False

    def sink_of(self, node) -> str:
        """where does the value computed at `node` go (syntactic): raise | return | yield | state | local"""
        names = set()
        n = node
        while n is not self.fn and n in self.parent:
            p = self.parent[n]
            if isinstance(p, ast.Raise):
                return "raise"
            if isinstance(p, (ast.Return,)):
                return "return"
            if isinstance(p, (ast.Yield, ast.YieldFrom)):
                return "yield"
            if isinstance(p, (ast.Assign, ast.AnnAssign, ast.AugAssign)):
                tgts = p.targets if isinstance(p, ast.Assign) else [p.target]
                for t in tgts:
                    if isinstance(t, ast.Name):
                        names.add(t.id)
                    elif isinstance(t, ast.Attribute):
                        return "state"
            n = p
        if isinstance(node, ast.For):
            for b in ast.walk(node):
                if isinstance(b, ast.Raise):
                    return "raise"
                if isinstance(b, ast.Return):
                    return "return"
                if isinstance(b, (ast.Yield, ast.YieldFrom)):
                    return "yield"
                if isinstance(b, ast.Call) and isinstance(b.func, ast.Attribute) and b.func.attr in ("append", "extend", "insert") \
                        and isinstance(b.func.value, ast.Name):
                    names.add(b.func.value.id)
                if isinstance(b, (ast.Assign, ast.AugAssign)):
                    for t in (b.targets if isinstance(b, ast.Assign) else [b.target]):
                        if isinstance(t, ast.Name):
                            names.add(t.id)
        if names:
            for b in ast.walk(self.fn):
                if isinstance(b, (ast.Raise, ast.Return, ast.Yield)):
                    for x in ast.walk(b):
                        if isinstance(x, ast.Name) and x.id in names:
                            return "raise" if isinstance(b, ast.Raise) else "return"
        return "local"

    def for_body_commutative(self, node: ast.For) -> bool:
        """the loop body only performs set mutations, `|=`-style accumulations, or membership-style early
        exits that do not mention the loop variable in what they return"""
        tvars = {x.id for x in ast.walk(node.target) if isinstance(x, ast.Name)}

        def ok(st) -> bool:
            if isinstance(st, ast.Expr) and isinstance(st.value, ast.Call) and isinstance(st.value.func, ast.Attribute) \
                    and st.value.func.attr in SET_MUTATORS:
                return True
            if isinstance(st, ast.AugAssign) and isinstance(st.op, (ast.BitOr, ast.BitAnd, ast.Add)) and \
                    not isinstance(st.op, ast.Add):
                return True
            if isinstance(st, ast.Assign) and all(isinstance(t, ast.Name) for t in st.targets) and \
                    not any(isinstance(x, (ast.Call,)) and isinstance(x.func, ast.Attribute) and x.func.attr in ("append", "extend")
                            for x in ast.walk(st.value)):
                # local alias such as `target_set = self[source_field]`
                return isinstance(st.value, (ast.Subscript, ast.Name, ast.Attribute))
            if isinstance(st, ast.If):
                return all(ok(s) for s in st.body) and all(ok(s) for s in st.orelse)
            if isinstance(st, ast.Pass):
                return True
            return False
        return all(ok(s) for s in node.body) and not node.orelse

    def loop_var_escapes(self, node: ast.For) -> bool:
        tvars = {x.id for x in ast.walk(node.target) if isinstance(x, ast.Name)}
        end = node.end_lineno
        inside = set(map(id, ast.walk(node)))
        rebound = {}
        for n in ast.walk(self.fn):
            if id(n) in inside:
                continue
            if isinstance(n, ast.Name) and n.id in tvars and getattr(n, "lineno", 0) > end:
                if isinstance(n.ctx, ast.Store):
                    rebound[n.id] = min(rebound.get(n.id, 10 ** 9), n.lineno)
        for n in ast.walk(self.fn):
            if id(n) in inside:
                continue
            if isinstance(n, ast.Name) and n.id in tvars and isinstance(n.ctx, ast.Load) and n.lineno > end \
                    and n.lineno <= rebound.get(n.id, 10 ** 9):
                # a later `for <same name> in …` rebinding on the same line does not count as an escape
                p = self.parent.get(n)
                return True
        return False

    def add(self, node, expr, kind, is_sorted, ordered, escapes=False):
        self.sites.append({"file": self.rel, "func": self.qual, "line": node.lineno, "expr": _src(expr), "kind": kind,
                           "sorted": bool(is_sorted), "ordered": bool(ordered), "sink": self.sink_of(node),
                           "loopVarEscapes": bool(escapes)})

    def comp_ordered(self, comp) -> bool:
        """is the order of a comprehension's result observable?  not for set comprehensions and for
        generator expressions handed directly to an order-insensitive reducer"""
        if isinstance(comp, ast.SetComp):
            return False
        p = self.parent.get(comp)
        if isinstance(p, ast.Call) and isinstance(p.func, ast.Name) and p.func.id in REDUCERS and comp in p.args:
            return False
        return True

    def scan(self):
        self.build_env()
        for n in ast.walk(self.fn):
            # nested function bodies are scanned with the enclosing environment (closures)
            if isinstance(n, ast.Call):
                f = n.func
                if isinstance(f, ast.Name) and f.id == "sorted" and n.args and self.is_set(n.args[0]):
                    self.add(n, n.args[0], "sorted", True, True)
                elif isinstance(f, ast.Attribute) and f.attr == "join" and len(n.args) == 1:
                    inner, s = self.unsort(n.args[0])
                    if self.is_set(inner) and not s:
                        self.add(n, inner, "join", False, True)
                elif isinstance(f, ast.Name) and f.id in ("list", "tuple", "enumerate", "iter", "reversed", "str", "repr") and n.args \
                        and self.is_set(n.args[0]):
                    self.add(n, n.args[0], f.id, False, True)
                elif isinstance(f, ast.Attribute) and f.attr == "format":
                    for a in list(n.args) + [k.value for k in n.keywords]:
                        if self.is_set(a):
                            self.add(n, a, "format", False, True)
                for a in n.args:
                    if isinstance(a, ast.Starred) and self.is_set(a.value):
                        self.add(n, a.value, "star", False, True)
            elif isinstance(n, (ast.List, ast.Tuple)):
                for a in n.elts:
                    if isinstance(a, ast.Starred) and self.is_set(a.value):
                        self.add(n, a.value, "star", False, True)
            elif isinstance(n, ast.FormattedValue):
                if self.is_set(n.value):
                    self.add(n, n.value, "fstring", False, True)
            elif isinstance(n, ast.BinOp) and isinstance(n.op, ast.Mod) and isinstance(n.left, ast.Constant) and isinstance(n.left.value, str):
                for a in ([n.right] if not isinstance(n.right, ast.Tuple) else n.right.elts):
                    if self.is_set(a):
                        self.add(n, a, "format", False, True)
            elif isinstance(n, ast.For):
                inner, s = self.unsort(n.iter)
                if self.is_set(inner) and not s:
                    esc = self.loop_var_escapes(n)
                    comm = self.for_body_commutative(n)
                    self.add(n, inner, "for", False, esc or not comm, esc)
                elif not s:
                    self.note_unclassified(n, n.iter)
            elif isinstance(n, (ast.ListComp, ast.GeneratorExp, ast.DictComp, ast.SetComp)):
                for g in n.generators:
                    inner, s = self.unsort(g.iter)
                    p = self.parent.get(n)
                    under_sorted = isinstance(p, ast.Call) and isinstance(p.func, ast.Name) and p.func.id == "sorted" and n in p.args
                    if self.is_set(inner) and not s and under_sorted:
                        self.add(n, inner, "comp", True, True)
                    elif self.is_set(inner) and not s:
                        self.add(n, inner, "comp", False, self.comp_ordered(n))
                    elif not s:
                        self.note_unclassified(n, g.iter)

    def note_unclassified(self, node, it):
        """iteration over something whose type the inference does not know but whose spelling suggests a set"""
        txt = _src(it)
        low = txt.lower()
        if isinstance(it, ast.Call):
            f = it.func
            nm = f.id if isinstance(f, ast.Name) else f.attr if isinstance(f, ast.Attribute) else ""
            if "set" in nm.lower() and nm not in ("setdefault", "items", "values", "keys") and not nm.startswith("set_") \
                    and not nm.startswith("get_"):
                self.unclassified.append({"file": self.rel, "func": self.qual, "line": node.lineno, "expr": txt,
                                          "why": "call of an unannotated function whose name mentions 'set'"})
        elif isinstance(it, (ast.Name, ast.Attribute)):
            nm = it.id if isinstance(it, ast.Name) else it.attr
            if nm.lower().endswith(("_set", "set")) or nm.lower().startswith("set_"):
                self.unclassified.append({"file": self.rel, "func": self.qual, "line": node.lineno, "expr": txt,
                                          "why": "unannotated name that mentions 'set'"})


def scan_package(root: str):
    pkg = Package(root)
    sites, unclassified = [], []
    for rel, tree in pkg.trees.items():
        def visit(body, prefix, cls):
            for st in body:
                if isinstance(st, ast.ClassDef):
                    visit(st.body, prefix + st.name + ".", st.name)
                elif isinstance(st, (ast.FunctionDef, ast.AsyncFunctionDef)):
                    fs = FuncScan(pkg, rel, prefix + st.name, st, cls)
                    fs.scan()
                    sites.extend(fs.sites)
                    unclassified.extend(fs.unclassified)
        visit(tree.body, "", None)
        # module / class level statements (class attributes built from sets)
        mod_fn = ast.FunctionDef(name="<module>", args=ast.arguments(posonlyargs=[], args=[], kwonlyargs=[], kw_defaults=[], defaults=[]),
                                 body=[s for s in ast.walk(tree) if isinstance(s, (ast.Assign, ast.AnnAssign)) and
                                       not any(isinstance(p, (ast.FunctionDef, ast.AsyncFunctionDef)) for p in _ancestors(tree, s))],
                                 decorator_list=[], lineno=0, end_lineno=0)
        fs = FuncScan(pkg, rel, "<module>", mod_fn, None)
        fs.scan()
        sites.extend(fs.sites)
    # de-duplicate (nested functions are reached from the enclosing function's walk as well)
    seen, out = set(), []
    for s in sites:
        k = (s["file"], s["line"], s["expr"], s["kind"])
        if k in seen:
            continue
        seen.add(k)
        out.append(s)
    out.sort(key=lambda s: (s["file"], s["line"], s["kind"], s["expr"]))
    return pkg, out, unclassified


_ANC = {}


def _ancestors(tree, node):
    key = id(tree)
    if key not in _ANC:
        par = {}
        for n in ast.walk(tree):
            for c in ast.iter_child_nodes(n):
                par[id(c)] = n
        _ANC.clear()
        _ANC[key] = par
    par = _ANC[key]
    out = []
    n = node
    while id(n) in par:
        n = par[id(n)]
        out.append(n)
    return out


# ------------------------------------------------------------------------------ random names
def random_names(pkg: Package):
    """`<str literal> + "".join(random.choices(<alphabet>, k=<n>))` anywhere in the package"""
    import string
    alph = {"ascii_lowercase": string.ascii_lowercase, "ascii_uppercase": string.ascii_uppercase,
            "ascii_letters": string.ascii_letters, "digits": string.digits}
    out, other_random = [], []
    for rel, tree in pkg.trees.items():
        par = {}
        for n in ast.walk(tree):
            for c in ast.iter_child_nodes(n):
                par[c] = n

        def owner(n):
            names = []
            while n in par:
                n = par[n]
                if isinstance(n, (ast.FunctionDef, ast.ClassDef)):
                    names.append(n.name)
            return ".".join(reversed(names))
        claimed = set()
        for n in ast.walk(tree):
            if isinstance(n, ast.BinOp) and isinstance(n.op, ast.Add) and isinstance(n.left, ast.Constant) and isinstance(n.left.value, str):
                for c in ast.walk(n.right):
                    if isinstance(c, ast.Call) and isinstance(c.func, ast.Attribute) and c.func.attr == "choices" \
                            and isinstance(c.func.value, ast.Name) and c.func.value.id == "random":
                        a = c.args[0] if c.args else None
                        if isinstance(a, ast.Attribute) and a.attr in alph:
                            alphabet = alph[a.attr]
                        elif isinstance(a, ast.Constant) and isinstance(a.value, str):
                            alphabet = a.value
                        else:
                            alphabet = None
                        k = None
                        for kw in c.keywords:
                            if kw.arg == "k" and isinstance(kw.value, ast.Constant):
                                k = kw.value.value
                        out.append({"file": rel, "func": owner(n), "prefix": n.left.value, "alphabet": alphabet, "length": k,
                                    "expr": _src(n)})
                        claimed.add(id(c))
        for n in ast.walk(tree):
            if isinstance(n, ast.Call) and id(n) not in claimed:
                f = n.func
                if isinstance(f, ast.Attribute) and isinstance(f.value, ast.Name) and f.value.id in ("random", "secrets", "uuid", "os") \
                        and f.attr in ("choices", "choice", "random", "randint", "randrange", "sample", "shuffle", "getrandbits",
                                       "token_hex", "token_bytes", "uuid4", "uuid1", "urandom"):
                    other_random.append({"file": rel, "func": owner(n), "expr": _src(n)})
    out.sort(key=lambda r: (r["file"], r["func"]))
    return out, other_random


def generate_identifier_calls(pkg: Package):
    """names called inside ProcessingItemBase._generate_identifier, and whether `id(`/`hash(` occur
    outside the `… if content else str(id(self))` fallback"""
    tree = pkg.trees.get(os.path.join("sigma", "processing", "pipeline.py"))
    fn = None
    for n in ast.walk(tree):
        if isinstance(n, ast.FunctionDef) and n.name == "_generate_identifier":
            fn = n
    if fn is None:
        raise ValueError("_generate_identifier not found")
    calls = []
    for n in ast.walk(fn):
        if isinstance(n, ast.Call):
            calls.append(_src(n.func))
    calls = sorted(set(calls))
    # identity-revealing calls outside the fallback branch
    fallback_nodes = set()
    for n in ast.walk(fn):
        if isinstance(n, ast.IfExp) and isinstance(n.test, ast.Name) and n.test.id == "content":
            fallback_nodes |= set(map(id, ast.walk(n.orelse)))
    ident_outside = sorted({_src(n.func) for n in ast.walk(fn) if isinstance(n, ast.Call) and isinstance(n.func, ast.Name)
                            and n.func.id in ("id", "hash", "repr", "object") and id(n) not in fallback_nodes})
    ident_fallback = sorted({_src(n.func) for n in ast.walk(fn) if isinstance(n, ast.Call) and isinstance(n.func, ast.Name)
                             and n.func.id in ("id", "hash", "repr") and id(n) in fallback_nodes})
    sorts_dict = any(isinstance(n, ast.Call) and isinstance(n.func, ast.Name) and n.func.id == "sorted" and n.args and
                     isinstance(n.args[0], ast.Call) and isinstance(n.args[0].func, ast.Attribute) and n.args[0].func.attr == "items"
                     for n in ast.walk(fn))
    return {"calls": calls, "identityCallsOutsideFallback": ident_outside, "identityCallsInFallback": ident_fallback,
            "sortsDictItems": sorts_dict}
