#!/usr/bin/env python3
"""Run the registered checks against the seeded property-breaking changes kept under /verif/seeded/<id>/.

For each seeded change: a scratch worktree of /repo is created outside /repo and /verif, patch.diff is applied
there, (optionally) the pinned test suite is run to confirm that it still passes, the demonstration is run
(must exit 1 with the change, 0 without), and the property's check is run against the worktree
(VERIF_REPO=<worktree>) for several seeds.  The result (caught / missed, the VIOLATION line) is written to
seeded/<id>/result.json.  /repo itself is never touched.  Evidence files written by these runs are restored.

usage: tools/seeded.py [--tests] [--tier quick|thorough] [--seeds 1,2,3] [id ...]"""
import json, os, shutil, subprocess, sys, tempfile

VERIF = os.path.dirname(os.path.dirname(os.path.abspath(__file__)))
PY = "/venv/bin/python"


def sh(cmd, cwd=None, env=None, timeout=3600):
    p = subprocess.run(cmd, cwd=cwd, env=env, text=True, stdout=subprocess.PIPE, stderr=subprocess.STDOUT, timeout=timeout)
    return p.returncode, p.stdout


def main():
    args = sys.argv[1:]
    tests = "--tests" in args
    tier = "quick"
    seeds = [1, 2, 3]
    ids = []
    i = 0
    while i < len(args):
        a = args[i]
        if a == "--tier": tier = args[i + 1]; i += 1
        elif a == "--seeds": seeds = [int(x) for x in args[i + 1].split(",")]; i += 1
        elif a != "--tests": ids.append(a)
        i += 1
    root = os.path.join(VERIF, "seeded")
    ids = ids or sorted(d for d in os.listdir(root) if os.path.isfile(os.path.join(root, d, "patch.diff")))
    summary = []
    for sid in ids:
        d = os.path.join(root, sid)
        meta = json.load(open(os.path.join(d, "meta.json")))
        prop = meta["property"]
        tmp = tempfile.mkdtemp(prefix="seedrun_")
        wt = os.path.join(tmp, "wt")
        res = {"id": sid, "property": prop, "tier": tier}
        try:
            prev = json.load(open(os.path.join(d, "result.json")))
            if not tests and "tests_pass" in prev:
                res["tests_pass"] = prev["tests_pass"]; res["tests_out"] = prev.get("tests_out")
        except Exception:
            pass
        try:
            rc, out = sh(["git", "-C", "/repo", "worktree", "add", "--detach", wt, "HEAD"])
            if rc: raise RuntimeError(out)
            env = dict(os.environ, PYTHONPATH=wt)
            demo = os.path.join(d, "demo.py")
            if os.path.exists(demo):
                res["demo_unmodified_rc"] = sh([PY, demo], cwd=wt, env=env, timeout=600)[0]
            rc, out = sh(["git", "-C", wt, "apply", os.path.join(d, "patch.diff")])
            if rc: raise RuntimeError("patch does not apply: " + out)
            if os.path.exists(demo):
                res["demo_patched_rc"] = sh([PY, demo], cwd=wt, env=env, timeout=600)[0]
            if tests:
                rc, out = sh([PY, os.path.join(VERIF, "tools", "baseline.py"), wt])
                res["tests_pass"] = rc == 0
                res["tests_out"] = out.strip().splitlines()[:5]
            runs = []
            for s in seeds:
                env2 = dict(os.environ, VERIF_REPO=wt, VERIF_SEED=str(s), PYTHONPATH=wt)
                rc, out = sh([os.path.join(VERIF, "check"), prop, "--tier", tier], cwd=VERIF, env=env2)
                viol = [l for l in out.splitlines() if l.startswith("VIOLATION")]
                runs.append({"seed": s, "rc": rc, "violations": viol[:3], "tail": out.strip().splitlines()[-1:]})
                # keep the first replay as an example
                if viol and "example_replay" not in res:
                    rp = viol[0].split("replay=")[1].split()[0]
                    rp = rp if os.path.isabs(rp) else os.path.join(VERIF, rp)
                    if os.path.exists(rp):
                        try:
                            res["example_replay"] = json.load(open(rp))
                        except Exception:
                            pass
            res["runs"] = runs
            res["caught"] = all(r["rc"] == 1 and r["violations"] for r in runs)
            res["caught_some"] = any(r["rc"] == 1 and r["violations"] for r in runs)
        except Exception as e:
            res["error"] = str(e)[:500]
        finally:
            sh(["git", "-C", "/repo", "worktree", "remove", "--force", wt])
            shutil.rmtree(tmp, ignore_errors=True)
        json.dump(res, open(os.path.join(d, "result.json"), "w"), indent=1, default=str)
        line = f"{sid}: caught={res.get('caught')} some={res.get('caught_some')} demo={res.get('demo_unmodified_rc')}/{res.get('demo_patched_rc')} tests={res.get('tests_pass')} {res.get('error', '')}"
        print(line, flush=True)
        summary.append(line)
    # the runs above rewrote evidence and generated tables from the changed tree: restore
    sh(["git", "-C", VERIF, "checkout", "--", "evidence"])
    sh([PY, os.path.join(VERIF, "tools", "translate.py")], cwd=VERIF)
    return 0


if __name__ == "__main__":
    sys.exit(main())
