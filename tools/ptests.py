#!/usr/bin/env python3
"""Run pySigma's pinned suite against seeded changes in parallel (5 at a time), each in its own scratch worktree of /repo with its own
junit file and HOME; writes {tests_pass, tests_out} per id to /tmp/ptests_out/<id>.json (merge into seeded/<id>/result.json by hand or with
`tools/seeded.py --tests`, which does the same sequentially).  usage: tools/ptests.py <seeded id> ..."""
import json, os, subprocess, sys, tempfile, shutil, xml.etree.ElementTree as ET
from concurrent.futures import ThreadPoolExecutor
base = set(json.load(open("/root/.vp/BASELINE.json"))["stable_pass"])
root = os.path.join(os.path.dirname(os.path.dirname(os.path.abspath(__file__))), "seeded")
os.makedirs("/tmp/ptests_out", exist_ok=True)
def one(sid):
    d = os.path.join(root, sid); tmp = tempfile.mkdtemp(prefix="ptest_"); wt = tmp + "/wt"; home = tmp + "/home"; os.makedirs(home)
    try:
        subprocess.run(["git","-C","/repo","worktree","add","--detach",wt,"HEAD"],capture_output=True,check=True)
        r = subprocess.run(["git","-C",wt,"apply",d+"/patch.diff"],capture_output=True,text=True)
        if r.returncode: return sid, False, ["patch does not apply: "+r.stderr[:200]]
        missing = None
        for attempt in range(3):
            out = tmp + "/j.xml"
            env = dict(os.environ, HOME=home); env.pop("SIGMAHQ_PYSIGMA_VERIF", None); env.pop("PYTHONPATH", None)
            subprocess.run(["/venv/bin/python","-m","pytest","-q","-p","no:cacheprovider","--timeout=900","--continue-on-collection-errors",f"--junitxml={out}"],cwd=wt,env=env,stdout=subprocess.DEVNULL,stderr=subprocess.DEVNULL)
            passed=set()
            for tc in ET.parse(out).getroot().iter("testcase"):
                if not any(ch.tag in ("failure","error","skipped") for ch in tc): passed.add(f"{tc.get('classname')}::{tc.get('name')}")
            missing = sorted(base - passed)
            if not [m for m in missing if "cached_data_used_without_url" not in m]:
                if not missing: break
            else: break
        return sid, not missing, [f"stable_pass={len(base)} missing={len(missing)}"] + missing[:5]
    finally:
        subprocess.run(["git","-C","/repo","worktree","remove","--force",wt],capture_output=True); shutil.rmtree(tmp, ignore_errors=True)
ids = sys.argv[1:]
with ThreadPoolExecutor(5) as ex:
    for sid, ok, out in ex.map(one, ids):
        json.dump({"tests_pass": ok, "tests_out": out}, open("/tmp/ptests_out/%s.json" % sid, "w"))
        print(sid, ok, out[:2], flush=True)
