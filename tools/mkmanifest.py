#!/usr/bin/env python3
"""Regenerate MANIFEST.json from tools/manifest_src.json (one place to edit)."""
import json, os
here = os.path.dirname(os.path.abspath(__file__))
src = json.load(open(os.path.join(here, "manifest_src.json")))
checks = []
for c in src["checks"]:
    pid = c["id"]
    checks.append({
        "property_id": pid,
        "quick_cmd": f"./check {pid} --tier quick",
        "thorough_cmd": f"./check {pid} --tier thorough",
        "evidence_file": f"evidence/{pid}.json",
        "replay_cmd_template": f"./check {pid} --replay {{path}}",
        "engine": "lean4-proof+correspondence",
        "level_claimed": {"category": "proof", "text": c["text"], "design_ref": c.get("design_ref", f"DESIGN.md §4 {pid}")},
        "level_note": c["note"],
        "technique": c["technique"],
    })
m = {
    "version": 1,
    "setup_cmd": "./setup.sh",
    "hooks": {"guard": "SIGMAHQ_PYSIGMA_VERIF", "enable": "export SIGMAHQ_PYSIGMA_VERIF=1 (no hooks are needed; the guard is set by ./check for uniformity)",
              "baseline_off_cmd": "/venv/bin/python tools/baseline.py", "source_commits": [], "add_only": True},
    "engines": [{"name": "lean4-proof+correspondence", "path": "lean/ harness/ tools/translate.py check",
                 "serves_properties": [c["id"] for c in src["checks"]],
                 "kind_free_text": "Lean 4 model + spec + theorems; translator-regenerated tables with by-decide obligations; differential correspondence of the real code against the compiled Lean driver; failing-input search on break"}],
    "checks": checks,
    "notes": src.get("notes", ""),
    "not_applicable": src.get("not_applicable", []),
}
json.dump(m, open(os.path.join(here, "..", "MANIFEST.json"), "w"), indent=1)
print("MANIFEST.json:", len(checks), "checks,", len(m["not_applicable"]), "not_applicable")
