#!/bin/bash
# Run every registered quick (or $1=thorough) check on the current tree; print one line per check.
cd "$(dirname "$0")/.."
tier=${1:-quick}
ids=$(python3 -c "import json; print(' '.join(c['property_id'] for c in json.load(open('MANIFEST.json'))['checks']))")
rc_all=0
for id in $ids; do
  out=$(./check $id --tier $tier 2>&1); rc=$?
  echo "$id rc=$rc :: $(echo "$out" | tail -1)"
  [ $rc -ne 0 ] && { rc_all=1; echo "$out" | grep -E "VIOLATION|INFRA|AUDIT" | head -5; }
done
exit $rc_all
