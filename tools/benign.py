#!/usr/bin/env python3
"""Run EVERY registered check against the behaviour-preserving refactorings kept under /verif/benign/<id>/.

Each refactoring (patch.diff + meta.json with the argument why behaviour is unchanged) is applied in a scratch
worktree of /repo outside /repo and /verif; all checks run against it (VERIF_REPO=<worktree>, quick tier).
Expected: every check exits 0.  A check that exits 1 here raises an alarm on code where the property holds:
either a genuine false alarm of the harness (to be corrected) or a proof obligation / translator table that a
harmless rewrite broke (reported as `… no-failing-input-found`; recorded in result.json with the obligation's
name so that the extractor can be made less syntax-dependent).

usage: tools/benign.py [--seed N] [--checks C01,C05] [id ...]"""
import json, os, shutil, subprocess, sys, tempfile

VERIF = os.path.dirname(os.path.dirname(os.path.abspath(__file__)))


def sh(cmd, cwd=None, env=None, timeout=3600):
    p = subprocess.run(cmd, cwd=cwd, env=env, text=True, stdout=subprocess.PIPE, stderr=subprocess.STDOUT, timeout=timeout)
    return p.returncode, p.stdout


def main():
    args = sys.argv[1:]
    seed, checks, ids = "1", None, []
    i = 0
    while i < len(args):
        if args[i] == "--seed": seed = args[i + 1]; i += 1
        elif args[i] == "--checks": checks = args[i + 1].split(","); i += 1
        else: ids.append(args[i])
        i += 1
    man = json.load(open(os.path.join(VERIF, "MANIFEST.json")))
    props = checks or [c["property_id"] for c in man["checks"]]
    root = os.path.join(VERIF, "benign")
    ids = ids or sorted(d for d in os.listdir(root) if os.path.isfile(os.path.join(root, d, "patch.diff")))
    for bid in ids:
        d = os.path.join(root, bid)
        tmp = tempfile.mkdtemp(prefix="benignrun_")
        wt = os.path.join(tmp, "wt")
        res = {"id": bid, "seed": seed, "alarms": [], "infra": []}
        try:
            rc, out = sh(["git", "-C", "/repo", "worktree", "add", "--detach", wt, "HEAD"])
            if rc: raise RuntimeError(out)
            rc, out = sh(["git", "-C", wt, "apply", os.path.join(d, "patch.diff")])
            if rc: raise RuntimeError("patch does not apply: " + out)
            for p in props:
                env = dict(os.environ, VERIF_REPO=wt, VERIF_SEED=seed, PYTHONPATH=wt)
                rc, out = sh([os.path.join(VERIF, "check"), p], cwd=VERIF, env=env)
                if rc == 1:
                    viol = [l for l in out.splitlines() if l.startswith("VIOLATION")]
                    entry = {"check": p, "lines": viol[:3], "tail": out.strip().splitlines()[-1:]}
                    for l in viol[:1]:
                        rp = l.split("replay=")[1].split()[0]
                        rp = rp if os.path.isabs(rp) else os.path.join(VERIF, rp)
                        try:
                            r = json.load(open(rp))
                            entry["replay"] = {k: r.get(k) for k in ("kind", "names", "what")}
                        except Exception:
                            pass
                    res["alarms"].append(entry)
                elif rc != 0:
                    res["infra"].append({"check": p, "rc": rc, "tail": out.strip().splitlines()[-3:]})
        except Exception as e:
            res["error"] = str(e)[:500]
        finally:
            sh(["git", "-C", "/repo", "worktree", "remove", "--force", wt])
            shutil.rmtree(tmp, ignore_errors=True)
        json.dump(res, open(os.path.join(d, "result.json"), "w"), indent=1, default=str)
        print(f"{bid}: alarms={[a['check'] + ('(oblig)' if any('no-failing-input-found' in l for l in a['lines']) else '(input)') for a in res['alarms']]} "
              f"infra={[x['check'] for x in res['infra']]} {res.get('error', '')}", flush=True)
    sh(["git", "-C", VERIF, "checkout", "--", "evidence"])
    sh(["/venv/bin/python", os.path.join(VERIF, "tools", "translate.py")], cwd=VERIF)
    return 0


if __name__ == "__main__":
    sys.exit(main())
