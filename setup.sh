#!/bin/bash
# MANIFEST.setup_cmd: build the framework from files on disk only (offline).
set -e
cd "$(dirname "$0")"
mkdir -p .work evidence replays
export SIGMAHQ_PYSIGMA_VERIF=1
/venv/bin/python tools/translate.py
cd lean
lake build driver SigmaVerif.AuditCmd
# build every property/obligation module that exists; a failing obligation must not fail setup
for f in SigmaVerif/Props/C*.lean SigmaVerif/Oblig/C*.lean; do
  [ -f "$f" ] || continue
  m=$(echo "${f%.lean}" | tr / .)
  lake build "$m" || echo "setup: $m does not build (reported by its check)"
done
echo "setup done"
